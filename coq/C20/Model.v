(* C20 — connections start at their source and end at their destination.

   Model, over exact rationals, of the code that puts the two ends of a route on shape borders:
     lib/geo/point.go    IntersectionPoint   (parametric segment/segment intersection, Cramer's rule, the
                                              parallel case, the [0,1] range test and the math.Round of the offset)
     lib/geo/box.go      Box.Intersections   (the four sides in the order top, right, bottom, left; no de-duplication)
     d2dagrelayout       the chop loop of Layout ("chop where edge crosses the source/target boxes")
     d2graph/layout.go   Edge.TraceToShape, rectangular branch (outside label box, outside icon box, the shape box,
                         findOuterIntersection, the MIN_SEGMENT_LEN merge), lib/label GetPointOnBox for outside positions
     d2dagrelayout / d2elklayout   the 3d/multiple switch to the offset box before TraceToShape
     d2layouts.DefaultRouter / d2grid   centre-to-centre route + TraceToShape
   and the definition of the VISUAL EXTENT the property speaks about (function of the observed box, 3d/multiple
   offsets, outside label and outside icon) with its border predicate.

   Outside the model (named in meta.json): float64 rounding of the divisions and products (the model is the
   exact-arithmetic idealisation; the only rounding it contains is the code's own math.Round), math.Sqrt in
   Segment.Length (modelled as the comparison of the squared length), TraceToShapeBorder for non-rectangular
   shapes (ellipse / bezier intersections: oracle), dagre and ELK themselves. *)
From Coq Require Import ZArith QArith Qminmax Qround Qabs List Bool NArith.
Import ListNotations.
Open Scope Q_scope.

Definition pt := (Q * Q)%type.
Definition px (p : pt) : Q := fst p.
Definition py (p : pt) : Q := snd p.

Record box := mkbox { bx : Q; by_ : Q; bw : Q; bh : Q }.

Definition lt_b (a b : Q) : bool := negb (Qle_bool b a).

(* Go math.Round: nearest integer, halves away from zero *)
Definition qround (q : Q) : Q :=
  if Qle_bool 0 q then inject_Z (Qfloor (q + (1#2))) else - inject_Z (Qfloor (- q + (1#2))).

(* ---------- lib/geo ---------- *)

(* The functions that (transitively) call IntersectionPoint take the rounding function as a parameter [rnd]: the code
   is the instance [qround] (Go's math.Round); the theorems hold for every rounding to within half a unit, which
   also covers a float64 tie such as fl(1/3)*7.5 = 2.4999999999999996 being rounded down where the exact 2.5 is
   rounded up. *)
Section Rnd.
Variable rnd : Q -> Q.

(* geo.IntersectionPoint(u0, u1, v0, v1) *)
Definition intersection_point (u0 u1 v0 v1 : pt) : option pt :=
  let udx := px u1 - px u0 in
  let vdx := px v1 - px v0 in
  let uvdx := px v0 - px u0 in
  let udy := py u1 - py u0 in
  let vdy := py v1 - py v0 in
  let uvdy := py v0 - py u0 in
  let denom := udy * vdx - udx * vdy in
  if Qeq_bool denom 0 then None                                   (* lines are parallel *)
  else
    let s := (vdx * uvdy - vdy * uvdx) / denom in
    let t := (udx * uvdy - udy * uvdx) / denom in
    if lt_b s 0 || lt_b 1 s || lt_b t 0 || lt_b 1 t then None
    else Some (px u0 + rnd (s * udx), py u0 + rnd (s * udy)).

Definition seg := (pt * pt)%type.         (* Start, End *)

Definition opt_list {A} (o : option A) : list A := match o with Some x => [x] | None => [] end.

Definition b_tl (b : box) : pt := (bx b, by_ b).
Definition b_tr (b : box) : pt := (bx b + bw b, by_ b).
Definition b_br (b : box) : pt := (bx b + bw b, by_ b + bh b).
Definition b_bl (b : box) : pt := (bx b, by_ b + bh b).

(* the four sides in the order of Box.Intersections *)
Definition sides (b : box) : list seg :=
  [(b_tl b, b_tr b); (b_tr b, b_br b); (b_br b, b_bl b); (b_bl b, b_tl b)].

(* geo.Box.Intersections(s) *)
Definition box_intersections (b : box) (s : seg) : list pt :=
  flat_map (fun sd => opt_list (intersection_point (fst s) (snd s) (fst sd) (snd sd))) (sides b).

(* geo.Box.Contains *)
Definition box_contains (b : box) (p : pt) : bool :=
  negb (lt_b (px p) (bx b) || lt_b (bx b + bw b) (px p) || lt_b (py p) (by_ b) || lt_b (by_ b + bh b) (py p)).

Definition box_center (b : box) : pt := (bx b + bw b / 2, by_ b + bh b / 2).

(* ---------- signed (Chebyshev) distance to a box and the border predicates ---------- *)

(* > 0 outside, < 0 inside (minus the depth), 0 exactly on the border (for w, h >= 0) *)
Definition sd_box (b : box) (p : pt) : Q :=
  Qmax (Qmax (bx b - px p) (px p - (bx b + bw b))) (Qmax (by_ b - py p) (py p - (by_ b + bh b))).

Definition near_border_b (tol : Q) (b : box) (p : pt) : bool := Qle_bool (Qabs (sd_box b p)) tol.

(* the exact notion: p lies on one of the four sides *)
Definition on_border (b : box) (p : pt) : Prop :=
  ((px p == bx b \/ px p == bx b + bw b) /\ by_ b <= py p <= by_ b + bh b) \/
  ((py p == by_ b \/ py p == by_ b + bh b) /\ bx b <= px p <= bx b + bw b).

Definition on_segment (s : seg) (p : pt) : Prop :=
  exists k, 0 <= k <= 1 /\ px p == px (fst s) + k * (px (snd s) - px (fst s))
                        /\ py p == py (fst s) + k * (py (snd s) - py (fst s)).

(* Chebyshev distance at most d *)
Definition close (d : Q) (p q : pt) : Prop := Qabs (px p - px q) <= d /\ Qabs (py p - py q) <= d.

Definition box_ok (b : box) : Prop := 0 <= bw b /\ 0 <= bh b.
Definition box_ok_b (b : box) : bool := Qle_bool 0 (bw b) && Qle_bool 0 (bh b).

(* ---------- the chop loop of d2dagrelayout.Layout ----------
   Go (points is what dagre returned, already reversed for `<-` edges; skipped for self loops):
       startIndex, endIndex := 0, len(points)-1;  start, end := points[startIndex], points[endIndex]
       for i := 1; i < len(points); i++ {
           segment := (points[i-1], points[i])
           if ints := Src.Box.Intersections(segment); len(ints) > 0 { start = ints[0]; startIndex = i-1 }
           if ints := Dst.Box.Intersections(segment); len(ints) > 0 { end = ints[0]; endIndex = i; break } }
       points = points[startIndex:endIndex+1];  points[0] = start;  points[len(points)-1] = end
   The model walks the segments and keeps [start] and, reversed, the points strictly after index startIndex up to
   the current segment start ([mid]); this is the same slice the index arithmetic above produces. *)
Fixpoint chop_go (src dst : box) (prev : pt) (rest : list pt) (start : pt) (mid : list pt) : list pt :=
  match rest with
  | [] => start :: rev mid
  | cur :: rest' =>
      let '(start', mid') :=
        match box_intersections src (prev, cur) with
        | p :: _ => (p, [])
        | [] => (start, mid)
        end in
      match box_intersections dst (prev, cur) with
      | q :: _ => start' :: rev mid' ++ [q]
      | [] => chop_go src dst cur rest' start' (cur :: mid')
      end
  end.

Definition chop (src dst : box) (pts : list pt) : list pt :=
  match pts with
  | [] => []
  | p0 :: rest => chop_go src dst p0 rest p0 []
  end.

(* which of the two updates happened on the segments the loop visits *)
Fixpoint chop_hits (src dst : box) (prev : pt) (rest : list pt) (sh : bool) : bool * bool :=
  match rest with
  | [] => (sh, false)
  | cur :: rest' =>
      let sh' := match box_intersections src (prev, cur) with _ :: _ => true | [] => sh end in
      match box_intersections dst (prev, cur) with
      | _ :: _ => (sh', true)
      | [] => chop_hits src dst cur rest' sh'
      end
  end.
Definition chop_src_hit (src dst : box) (pts : list pt) : bool :=
  match pts with [] => false | p0 :: rest => fst (chop_hits src dst p0 rest false) end.
Definition chop_dst_hit (src dst : box) (pts : list pt) : bool :=
  match pts with [] => false | p0 :: rest => snd (chop_hits src dst p0 rest false) end.

(* ---------- lib/label: outside positions, GetPointOnBox ---------- *)
Inductive opos :=
| OTopLeft | OTopCenter | OTopRight | OLeftTop | OLeftMiddle | OLeftBottom
| ORightTop | ORightMiddle | ORightBottom | OBottomLeft | OBottomCenter | OBottomRight.

Definition get_point_on_box (pos : opos) (b : box) (pad w h : Q) : pt :=
  let cx := bx b + bw b / 2 in
  let cy := by_ b + bh b / 2 in
  match pos with
  | OTopLeft => (bx b - pad, by_ b - (pad + h))
  | OTopCenter => (cx - w / 2, by_ b - (pad + h))
  | OTopRight => (bx b + (bw b - w - pad), by_ b - (pad + h))
  | OLeftTop => (bx b - (pad + w), by_ b + pad)
  | OLeftMiddle => (bx b - (pad + w), cy - h / 2)
  | OLeftBottom => (bx b - (pad + w), by_ b + (bh b - h - pad))
  | ORightTop => (bx b + (bw b + pad), by_ b + pad)
  | ORightMiddle => (bx b + (bw b + pad), cy - h / 2)
  | ORightBottom => (bx b + (bw b + pad), by_ b + (bh b - h - pad))
  | OBottomLeft => (bx b + pad, by_ b + (bh b + pad))
  | OBottomCenter => (cx - w / 2, by_ b + (bh b + pad))
  | OBottomRight => (bx b + (bw b - w - pad), by_ b + (bh b + pad))
  end.

Definition PADDING : Q := 5.            (* label.PADDING *)
Definition MIN_SEGMENT_LEN2 : Q := 100. (* d2graph.MIN_SEGMENT_LEN = 10, squared *)

(* the label box of TraceToShape: GetPointOnBox(box, PADDING, w, h), widened by PADDING to the left and right *)
Definition label_box (pos : opos) (b : box) (lw lh : Q) : box :=
  let tl := get_point_on_box pos b PADDING lw lh in
  mkbox (px tl - PADDING) (py tl) (lw + 2 * PADDING) lh.

Definition icon_box (pos : opos) (b : box) (sz : Q) : box :=
  let tl := get_point_on_box pos b PADDING sz sz in mkbox (px tl) (py tl) sz sz.

(* ---------- d2graph.findOuterIntersection ----------
   sort.Slice on at most 4 points (insertion sort: stable) and take the first: the first extremal one *)
Definition better (pos : opos) (p q : pt) : bool :=   (* p strictly before q *)
  match pos with
  | OTopLeft | OTopCenter | OTopRight => lt_b (py p) (py q)
  | OBottomLeft | OBottomCenter | OBottomRight => lt_b (py q) (py p)
  | OLeftTop | OLeftMiddle | OLeftBottom => lt_b (px p) (px q)
  | ORightTop | ORightMiddle | ORightBottom => lt_b (px q) (px p)
  end.

Fixpoint outer_from (pos : opos) (best : pt) (l : list pt) : pt :=
  match l with
  | [] => best
  | q :: l' => outer_from pos (if better pos q best then q else best) l'
  end.

Definition pick_outer (pos : opos) (ints : list pt) (dflt : pt) : pt :=
  match ints with
  | [] => dflt
  | [p] => p
  | p :: l => outer_from pos p l
  end.

(* ---------- Edge.TraceToShape, rectangular branch ----------
   One end of the edge: its (possibly offset) box, its outside label (position, width, height) and its outside icon
   (position, the size TraceToShape uses: MAX_ICON_SIZE at the source, GetIconSize at the destination). *)
Record endobj := mkend { e_box : box; e_label : option (opos * Q * Q); e_icon : option (opos * Q) }.

Definition short_seg (a b : pt) : bool :=
  lt_b ((px a - px b) * (px a - px b) + (py a - py b) * (py a - py b)) MIN_SEGMENT_LEN2.

(* [pts] is oriented END FIRST: p0 is the end point to be traced, p1 its neighbour on the route.
   "move the segment to the intersection point; if the segment becomes too short, merge it with the next one" *)
Definition move_end (p : pt) (pts : list pt) : list pt :=
  match pts with
  | [] => []
  | _ :: tl =>
      match tl with
      | p1 :: ((_ :: _) as rest) => if short_seg p1 p then p :: rest else p :: tl
      | _ => p :: tl
      end
  end.

(* the loop at the DESTINATION: `for labelBox.Contains(endingSegment.Start) && endIndex-1 > startIndex`
   (at the source the guard reads `startIndex+1 > endIndex`, which is never true: no iteration) *)
Fixpoint skip_inside (b : box) (pts : list pt) : list pt :=
  match pts with
  | [] => pts
  | _ :: tl =>
      match tl with
      | p1 :: _ :: _ => if box_contains b p1 then skip_inside b tl else pts
      | _ => pts
      end
  end.

Definition seg_of (pts : list pt) : option seg :=
  match pts with p0 :: p1 :: _ => Some (p1, p0) | _ => None end.

(* one "does the last segment run into this box" step: [loop] is the Contains-loop of the destination side,
   [pick] chooses among the intersections; returns the new list and whether the box stopped the edge *)
Definition try_box (loop : bool) (b : box) (pick : list pt -> pt -> pt) (pts : list pt) : list pt * bool :=
  let l1 := if loop then skip_inside b pts else pts in
  match seg_of l1 with
  | Some s =>
      match box_intersections b s with
      | [] => (l1, false)
      | ints => (move_end (pick ints (snd s)) l1, true)
      end
  | None => (l1, false)
  end.

Definition pick_first (ints : list pt) (d : pt) : pt := hd d ints.

(* result of one end: the new point list and which piece stopped the edge (0 nothing, 1 label, 2 icon, 3 box) *)
Definition trace_side (is_dst : bool) (o : endobj) (pts : list pt) : list pt * nat :=
  let r1 :=
    match e_label o with
    | Some (pos, lw, lh) => try_box is_dst (label_box pos (e_box o) lw lh) (pick_outer pos) pts
    | None => (pts, false)
    end in
  if snd r1 then (fst r1, 1%nat)
  else
    let r2 :=
      match e_icon o with
      | Some (pos, sz) => try_box is_dst (icon_box pos (e_box o) sz) (pick_outer pos) (fst r1)
      | None => (fst r1, false)
      end in
    if snd r2 then (fst r2, 2%nat)
    else
      (* the shape's own box; then TraceToShapeBorder, the identity for rectangular shapes *)
      let r3 := try_box false (e_box o) pick_first (fst r2) in
      (fst r3, if snd r3 then 3%nat else 0%nat).

(* Edge.TraceToShape(points, 0, len-1) followed by points[startIndex:endIndex+1] *)
Definition trace_to_shape (src dst : endobj) (pts : list pt) : list pt :=
  let l1 := fst (trace_side false src pts) in
  rev (fst (trace_side true dst (rev l1))).

(* d2layouts.DefaultRouter and the cell-to-cell routing of d2grid *)
Definition default_route (src dst : endobj) : list pt :=
  trace_to_shape src dst [box_center (e_box src); box_center (e_box dst)].

(* dagre / ELK: "if the edge passes through 3d/multiple, use the offset box for tracing to border" *)
Definition shifted_box (b : box) (dx dy : Q) : box := mkbox (bx b + dx) (by_ b - dy) (bw b) (bh b).
Definition modifier_box (b : box) (dx dy : Q) (p : pt) : box :=
  if negb (Qeq_bool dx 0 && Qeq_bool dy 0) && lt_b (bx b + dx) (px p) && lt_b (py p) (by_ b + bh b - dy)
  then shifted_box b dx dy else b.

End Rnd.

(* the boxes an edge end can be stopped by, as TraceToShape computes them from the box it is given *)
Definition code_pieces (o : endobj) : list box :=
  match e_label o with Some (pos, lw, lh) => [label_box pos (e_box o) lw lh] | None => [] end ++
  match e_icon o with Some (pos, sz) => [icon_box pos (e_box o) sz] | None => [] end ++
  [e_box o].

(* ---------- the VISUAL EXTENT of the property ----------
   "the shape's box extended by its outside label and icon and its 3D/multiple offsets", read as the union of
     - the shape (its box; for non-rectangular shapes the outline, see Check.v),
     - the copy offset by (dx, -dy) that 3d / multiple draw behind it,
     - the outside label box: where d2svg draws it (GetPointOnBox on the box around the shape and its offset copy),
       with label.PADDING on its left and right like TraceToShape's label box,
     - the outside icon box: where d2svg draws it (GetPointOnBox on the shape box, size d2target.GetIconSize).
   A point is on the border of the union iff it is on the border of one piece and not strictly inside another. *)
Record vis := mkvis { v_box : box; v_dx : Q; v_dy : Q; v_label : option (opos * Q * Q); v_icon : option (opos * Q) }.

Definition has_offset (v : vis) : bool := negb (Qeq_bool (v_dx v) 0 && Qeq_bool (v_dy v) 0).

Definition enlarged_box (v : vis) : box :=
  mkbox (bx (v_box v)) (by_ (v_box v) - v_dy v) (bw (v_box v) + v_dx v) (bh (v_box v) + v_dy v).

Definition deco_boxes (v : vis) : list box :=
  match v_label v with Some (pos, lw, lh) => [label_box pos (enlarged_box v) lw lh] | None => [] end ++
  match v_icon v with Some (pos, sz) => [icon_box pos (v_box v) sz] | None => [] end.

Definition shape_boxes (v : vis) : list box :=
  v_box v :: (if has_offset v then [shifted_box (v_box v) (v_dx v) (v_dy v)] else []).

Definition extent_boxes (v : vis) : list box := shape_boxes v ++ deco_boxes v.

(* signed distances of p to every piece: on the border of the union within tol *)
Definition on_union_border_b (tol : Q) (sds : list Q) : bool :=
  existsb (fun s => Qle_bool (Qabs s) tol) sds && forallb (fun s => Qle_bool (- tol) s) sds.

Definition on_extent_border_b (tol : Q) (v : vis) (p : pt) : bool :=
  on_union_border_b tol (map (fun b => sd_box b p) (extent_boxes v)).
