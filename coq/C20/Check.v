(* Executable checker for C20 cases.

   (a) correspondence, code 1 -- the model against the REAL functions on inputs built by the harness:
         CInt    geo.Box.Intersections(segment)                     vs [box_intersections]
         CTrace  d2graph.Edge.TraceToShape on hand-built rectangular objects vs [trace_to_shape]
         CRoute  d2layouts.DefaultRouter on a hand-built two-object graph     vs [default_route]
         CEnd with [pre]: an end of a real pipeline connection that DefaultRouter / d2grid routed (2 points,
                 rectangular end): the observed end point vs the model's trace of the centre-to-centre segment
       Numbers are exact dyadic rationals.  The model is evaluated with Go's rounding (halves away from zero), with
       halves towards zero and with both nudged by 1e-7: where they differ the exact value was a tie or within 1e-7
       of one, float64 error decides in the code, and either answer is accepted (per coordinate).
   (b) monitored hypotheses: 2 a piece of the extent has a negative size; 3 the oracle TraceToShapeBorder returned a
       point farther than 1 px from the outline it was aimed at; 4 DefaultRouter's centre-to-centre segment met
       neither label, icon nor box of the end (the theorem then says the end point is left where it was).
   (c) the property on the real pipeline output: 10 / 11 the first / last route point of a non-sequence connection is
       not within [tol] = 1 px of the border of the source's / destination's visual extent; 12 fewer than 2 points;
       13 a point returned by the real Box.Intersections is farther than half a pixel from the box border. *)
From Coq Require Import ZArith QArith Qminmax Qround Qabs List Bool NArith.
Import ListNotations.
Require Import V.Lib.RunCases.
Require Export V.C20.Model.
Open Scope Q_scope.

Definition qz (z : Z) : Q := inject_Z z.
Definition qd (m : Z) (e : N) : Q := Qmake m (match e with N0 => 1%positive | Npos p => Pos.pow 2 p end).   (* m / 2^e *)

(* halves towards zero *)
Definition qround_dn (q : Q) : Q :=
  if Qle_bool 0 q then - inject_Z (Qfloor (- q + (1#2))) else inject_Z (Qfloor (q + (1#2))).

Definition tolc : Q := 1 # 1000000.      (* synthetic correspondence *)
Definition tolp : Q := 1 # 100.          (* pipeline correspondence: export truncates to 1e-3 and to float32 *)
Definition tol : Q := 1.                 (* the property's tolerance, pixels *)

Definition close_b (t a b : Q) : bool := Qle_bool (Qabs (a - b)) t.
Definition pt_close (t : Q) (a b : pt) : bool := close_b t (px a) (px b) && close_b t (py a) (py b).
Definition pts_close (t : Q) : list pt -> list pt -> bool := list_eqb (pt_close t).

(* the model under several roundings: Go's (halves away from zero), halves towards zero, and both shifted by 1e-7
   (a float64 product that lands within 1e-7 of k + 1/2 may be rounded either way by the code) *)
Definition nudge : Q := 1 # 10000000.
Definition roundings : list (Q -> Q) :=
  [qround; qround_dn; (fun q => qround (q + nudge)); (fun q => qround (q - nudge))].

(* impl agrees with one of the model outputs, or -- all of the same length -- coordinate by coordinate with some of them *)
Fixpoint mixed_close (t : Q) (ms : list (list pt)) (impl : list pt) : bool :=
  match impl with
  | [] => forallb (fun m => match m with [] => true | _ => false end) ms
  | i :: impl' =>
      forallb (fun m => match m with [] => false | _ => true end) ms &&
      existsb (fun m => match m with u :: _ => close_b t (px u) (px i) | [] => false end) ms &&
      existsb (fun m => match m with u :: _ => close_b t (py u) (py i) | [] => false end) ms &&
      mixed_close t (map (@tl pt) ms) impl'
  end.

Definition corr (t : Q) (model : (Q -> Q) -> list pt) (impl : list pt) : bool :=
  let ms := map model roundings in
  existsb (fun m => pts_close t m impl) ms || mixed_close t ms impl.

Inductive case :=
| CSkip
| CInt (b : box) (s : seg) (impl : list pt)
| CTrace (src dst : endobj) (pts impl : list pt)
| CRoute (src dst : endobj) (impl : list pt)
| CBorder (aimed : bool) (sd : Q)
| CEnd (is_dst : bool) (n : nat) (p : pt) (v : vis) (rect : bool) (shape_sds : list Q) (pre : option (endobj * pt)).

Definition vis_dims_ok (v : vis) : bool :=
  box_ok_b (v_box v) &&
  match v_label v with Some (_, lw, lh) => Qle_bool 0 lw && Qle_bool 0 lh | None => true end &&
  match v_icon v with Some (_, sz) => Qle_bool 0 sz | None => true end.

(* signed distances of p to the pieces of the visual extent: boxes for rectangular shapes; for the others the
   harness measured the (Euclidean, signed) distance to the outline sampled from the real lib/shape perimeter of the
   shape and of its 3d/multiple copy, the label and icon boxes are still computed here *)
Definition extent_sds (v : vis) (rect : bool) (shape_sds : list Q) (p : pt) : list Q :=
  if rect then map (fun b => sd_box b p) (extent_boxes v)
  else shape_sds ++ map (fun b => sd_box b p) (deco_boxes v).

Definition end_ok (v : vis) (rect : bool) (shape_sds : list Q) (p : pt) : bool :=
  on_union_border_b tol (extent_sds v rect shape_sds p).

Definition check_case (c : case) : list N :=
  match c with
  | CSkip => []
  | CInt b s impl =>
      let ok := box_ok_b b in
      flag (corr tolc (fun r => box_intersections r b s) impl) 1
      ++ flag (implb ok (forallb (near_border_b ((1#2) + tolc) b) impl)) 13
  | CTrace src dst pts impl =>
      flag (corr tolc (fun r => trace_to_shape r src dst pts) impl) 1
  | CRoute src dst impl =>
      flag (corr tolc (fun r => default_route r src dst) impl) 1
  | CBorder aimed sd => flag (implb aimed (Qle_bool (Qabs sd) tol)) 3
  | CEnd is_dst n p v rect shape_sds pre =>
      let dims := vis_dims_ok v in
      let pre_codes :=
        match pre with
        | Some (o, nb) =>
            let pts := [box_center (e_box o); nb] in
            match snd (trace_side qround is_dst o pts) with
            | O => [4%N]
            | _ => flag (corr tolp (fun r => firstn 1 (fst (trace_side r is_dst o pts))) [p]) 1
            end
        | None => []
        end in
      pre_codes ++ flag dims 2
      ++ flag (Nat.leb 2 n) 12
      ++ flag (implb (Nat.leb 2 n) (end_ok v rect shape_sds p)) (if is_dst then 11 else 10)
  end.
