(* Part 5: what the predicted ID rewriting [new_path] does, subtree by subtree. *)
From Coq Require Import List Arith NArith Bool Lia Permutation.
Import ListNotations.
Require Import V.Lib.RunCases V.C38.Spec V.C38.Proofs V.C38.Rows V.C38.Ops V.C38.Main.
Open Scope N_scope.

(* a row whose ID is not a key of the delta zip keeps its ID *)
Lemma papply_outside d p : ~ In p (map fst d) -> papply d p = p.
Proof. intro H. unfold papply. apply plookup_None in H. rewrite H. reflexivity. Qed.

Lemma outside_path A S B r :
  NoDup (paths (A ++ S ++ B)) -> In r (A ++ S ++ B) -> ~ In r S -> ~ In (r_path r) (paths S).
Proof.
  intros ND Hr Hn Hp. apply in_app_or in Hr as [Hr | Hr].
  - rewrite paths_app in ND. eapply NoDup_app_disj; [exact ND | apply in_map; exact Hr |].
    rewrite paths_app. apply in_or_app; left; exact Hp.
  - apply in_app_or in Hr as [Hr | Hr]; [contradiction|].
    rewrite paths_app in ND. apply NoDup_app_r in ND. rewrite paths_app in ND.
    eapply NoDup_app_disj; [exact ND | exact Hp | apply in_map; exact Hr].
Qed.

(* the subtree of x re-rooted at q under the name n', row by row *)
Definition reroot (p q : path) (n' : str) (r : orow) : orow :=
  mkR (r_lbl r) (q ++ n' :: skipn (S (length p)) (r_path r)) (r_attrs r).

Lemma flat_o_reroot k p q n' : flat_o q (set_name n' k) = map (reroot p q n') (flat_o p k).
Proof.
  rewrite flat_o_set_name_kids, flat_o_unfold. cbn [map]. f_equal.
  - unfold reroot; cbn [r_lbl r_path r_attrs]. f_equal.
    replace (S (length p)) with (length (p ++ [oname k])) by (rewrite app_length; cbn; lia).
    rewrite <- (app_nil_r (p ++ [oname k])) at 2. rewrite skipn_app_exact. reflexivity.
  - rewrite (flat_f_reprefix (kids k) (p ++ [oname k]) (q ++ [n'])).
    apply map_ext. intro r. unfold reprefix, reroot. f_equal.
    rewrite <- app_assoc. cbn [app]. f_equal. f_equal. f_equal. rewrite app_length. cbn. lia.
Qed.

Lemma in_combine_map {A B} (f : A -> B) l x : In x l -> In (x, f x) (combine l (map f l)).
Proof. induction l as [|y l IH]; cbn; [intros [] | intros [-> | H]; auto]. Qed.

Lemma combine_app_eq {A B} (a b : list A) (a' b' : list B) :
  length a = length a' -> combine (a ++ b) (a' ++ b') = combine a a' ++ combine b b'.
Proof. revert a'; induction a; intros [|y a'] H; cbn in *; try discriminate; auto. f_equal. apply IHa. lia. Qed.

(* pairs of corresponding rows of two child lists related by renaming *)
Lemma combine_flat_renamed p q ks ks' k k' :
  Forall2 renamed ks ks' -> In (k, k') (combine ks ks') ->
  forall r r', In (r, r') (combine (flat_o p k) (flat_o q k')) ->
               In (r, r') (combine (flat_f p ks) (flat_f q ks')).
Proof.
  induction 1 as [|k0 k0' ks ks' Hk F IH]; intros Hin r r' Hr; [contradiction|].
  rewrite !flat_f_cons. rewrite combine_app_eq.
  - cbn in Hin. destruct Hin as [E | Hin]; apply in_or_app; [left | right; auto].
    inversion E; subst; auto.
  - apply Forall2_length' with (R := same_la). apply flat_o_same_la_renamed; auto.
Qed.

(* ID of every row below child k after hoisting / re-rooting *)
Lemma zip_lookup_child pp xp ks ks' k n' r :
  NoDup (paths (flat_f xp ks)) ->
  Forall2 renamed ks ks' -> In (k, set_name n' k) (combine ks ks') -> In r (flat_o xp k) ->
  papply (zip_paths (flat_f xp ks) (flat_f pp ks')) (r_path r)
  = pp ++ n' :: skipn (S (length xp)) (r_path r).
Proof.
  intros ND F Hk Hr. unfold papply.
  assert (L : length (flat_f xp ks) = length (flat_f pp ks')).
  { apply Forall2_length' with (R := same_la). apply flat_f_same_la_renamed; auto. }
  rewrite (plookup_unique _ (r_path r) (r_path (reroot xp pp n' r))).
  - reflexivity.
  - rewrite zip_paths_fst by exact L. exact ND.
  - apply zip_paths_In. eapply combine_flat_renamed; eauto.
    rewrite (flat_o_reroot k xp pp n'). apply in_combine_map; auto.
Qed.

(* ------------------------------------------------------------------ renaming happens only on conflict *)

Lemma hoist_conflict sib ex xn all : forall ks asg i k k',
  nth_error ks i = Some k -> nth_error (hoist sib ex xn all asg ks) i = Some k' ->
  oname k' = oname k
  \/ In (oname k) sib
  \/ In (oname k) (asg ++ names (firstn i (hoist sib ex xn all asg ks))).
Proof.
  induction ks as [|k0 r IH]; intros asg i k k' Hk Hk'; [destruct i; discriminate|].
  cbn [hoist] in *.
  destruct (str_eqb (oname k0) xn) eqn:Ex.
  - destruct i as [|i]; cbn in Hk, Hk'.
    + inversion Hk; inversion Hk'; subst. left; reflexivity.
    + destruct (IH asg i k k' Hk Hk') as [H | [H | H]]; auto.
      right; right. cbn [firstn names map]. apply in_app_or in H as [H | H]; apply in_or_app; auto.
      right; right; exact H.
  - destruct (smem (oname k0) sib || smem (oname k0) asg) eqn:Ec.
    + destruct i as [|i]; cbn in Hk, Hk'.
      * inversion Hk; inversion Hk'; subst. apply orb_true_iff in Ec as [Ec | Ec]; apply smem_In in Ec; auto.
        right; right. apply in_or_app; left; exact Ec.
      * destruct (IH _ i k k' Hk Hk') as [H | [H | H]]; auto.
        right; right. cbn [firstn names map]. rewrite <- app_assoc in H.
        apply in_app_or in H as [H | H]; apply in_or_app; auto.
        right. destruct k0; exact H.
    + destruct i as [|i]; cbn in Hk, Hk'.
      * inversion Hk; inversion Hk'; subst. left; reflexivity.
      * destruct (IH _ i k k' Hk Hk') as [H | [H | H]]; auto.
        right; right. cbn [firstn names map]. rewrite <- app_assoc in H.
        apply in_app_or in H as [H | H]; apply in_or_app; auto.
Qed.

Lemma hoist_kids_conflict sib xn ks i k k' :
  nth_error ks i = Some k -> nth_error (hoist_kids sib xn ks) i = Some k' ->
  oname k' = oname k \/ In (oname k) sib \/ In (oname k) (names (firstn i (hoist_kids sib xn ks))).
Proof. unfold hoist_kids. intros H H'. exact (hoist_conflict _ _ _ _ _ [] _ _ _ H H'). Qed.
