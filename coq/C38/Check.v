(* Executable checker for C38 cases (one case = one step of an edit history). *)
From Coq Require Import List NArith Bool.
Import ListNotations.
Require Import V.Lib.RunCases.
Require Export V.C38.Spec V.C38.Clauses.
Open Scope N_scope.

(* graph before (ordered forest: children in d2graph ChildrenArray order; edges in Graph.Edges order),
   the operation (targets named by identity), whether the d2oracle function returned an error,
   order-free projection of the compiled graph after, and the delta map of the matching
   *IDDeltas function (None: that function returned an error). *)
Inductive case := Step (before : graph) (o : op) (err : bool) (RA : list orow) (EA : list edge) (d : option deltas).

Definition is_delete (o : op) : bool :=
  match o with OpDelObj _ | OpDelEdge _ | OpDelObjAttr _ _ | OpDelEdgeAttr _ _ => true | _ => false end.

Definition check_case (c : case) : list N :=
  match c with
  | Step gb o err RA EA _ =>
      flag (wf_b gb) 2
      ++ flag (is_delete o) 3
      ++ if err then [40]
         else
           flag (match spec_apply gb o with
                 | Some g' => graph_matches g' RA EA
                 | None => false
                 end) 1
           ++ prop_codes gb o RA EA
  end.
