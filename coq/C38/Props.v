(* C38 - Delete removes exactly the target and keeps its children.  Statements only.
   Graphs, operations and the row projection are defined in V.C38.Spec:
     rows g         one row (identity, ID = path of names, attributes) per object, depth first
     find_obj t f   the object with identity t: (location, parent ID pp, siblings before a, it x, after b)
     flat_o pp x    the rows of x and everything below it, when x sits below pp
     uniq g         identities unique and IDs unique in rows g *)
From Coq Require Import List NArith Bool Permutation.
Import ListNotations.
Require Import V.C38.Spec V.C38.Clauses V.C38.Rows V.C38.Main V.C38.Theorems V.C38.Tie2.
Open Scope N_scope.

Theorem C38_spec_delete_removes_target_and_attached_edges :
  forall g t g', uniq g -> spec_delete_object g t = Some g' ->
    lookup_row t (rows g') = None
    /\ g_edges g' = filter (fun e => negb (touches t e)) (g_edges g).
Proof. exact spec_delete_removes_target_and_attached_edges. Qed.

Theorem C38_spec_delete_frames_others :
  forall g t g' sl pp a x b,
    uniq g -> spec_delete_object g t = Some g' -> find_obj t (g_objs g) = Some (sl, pp, a, x, b) ->
    (forall r, In r (rows g) -> ~ In r (flat_o pp x) -> lookup_row (r_lbl r) (rows g') = Some r)
    /\ (forall e, In e (g_edges g') <-> In e (g_edges g) /\ touches t e = false)
    /\ (forall r', In r' (rows g') ->
          exists r, In r (rows g) /\ r_lbl r <> t /\ r_lbl r' = r_lbl r /\ r_attrs r' = r_attrs r).
Proof. exact spec_delete_frames_others. Qed.

(* child number i of the deleted object, and every row r below it: same identity, same attributes,
   new ID = parent's ID ++ n' :: (r's ID relative to the child); n' is the child's own name unless
   that name is taken below the parent by a sibling of the deleted object or by an earlier hoisted child *)
Theorem C38_spec_delete_hoists_children :
  forall g t g' sl pp a x b,
    uniq g -> spec_delete_object g t = Some g' -> find_obj t (g_objs g) = Some (sl, pp, a, x, b) ->
    forall i k, nth_error (kids x) i = Some k ->
    exists n',
      (forall r, In r (flat_o (pp ++ [oname x]) k) ->
                 lookup_row (r_lbl r) (rows g')
                 = Some (mkR (r_lbl r) (pp ++ n' :: skipn (S (length (pp ++ [oname x]))) (r_path r)) (r_attrs r)))
      /\ (n' = oname k
          \/ In (oname k) (names (a ++ b))
          \/ In (oname k) (names (firstn i (hoist_kids (names (a ++ b)) (oname x) (kids x))))).
Proof. exact spec_delete_hoists_children. Qed.

Theorem C38_spec_delete_edge_renumbers :
  forall g l g' d,
    NoDup (map e_lbl (g_edges g)) -> spec_delete_edge g l = Some g' -> find_edge l (g_edges g) = Some d ->
    rows g' = rows g
    /\ find_edge l (g_edges g') = None
    /\ forall e, In e (g_edges g) -> e_lbl e <> l ->
         find_edge (e_lbl e) (g_edges g')
         = Some (if parallel d e && (e_idx d <? e_idx e) then set_idx (e_idx e - 1) e else e).
Proof. exact spec_delete_edge_renumbers. Qed.

Theorem C38_spec_delete_edge_keeps_indices_distinct :
  forall g l g',
    (forall e1 e2, In e1 (g_edges g) -> In e2 (g_edges g) -> parallel e1 e2 = true -> e_idx e1 = e_idx e2 -> e1 = e2) ->
    spec_delete_edge g l = Some g' ->
    forall e1 e2, In e1 (g_edges g') -> In e2 (g_edges g') -> parallel e1 e2 = true -> e_idx e1 = e_idx e2 -> e1 = e2.
Proof. exact spec_delete_edge_keeps_indices_distinct. Qed.

Theorem C38_spec_delete_attr_only :
  forall g t c,
    rows (spec_delete_obj_attr g t c)
    = map (fun r => if r_lbl r =? t then mkR (r_lbl r) (r_path r) (del_attr c (r_attrs r)) else r) (rows g)
    /\ g_edges (spec_delete_obj_attr g t c) = g_edges g
    /\ (forall a, existsb (fun kv => fst kv =? c) (del_attr c a) = false)
    /\ (forall a kv, fst kv <> c -> (In kv (del_attr c a) <-> In kv a)).
Proof. exact spec_delete_attr_only. Qed.

Theorem C38_spec_delete_edge_attr_only :
  forall g l c,
    rows (spec_delete_edge_attr g l c) = rows g
    /\ g_edges (spec_delete_edge_attr g l c)
       = map (fun e => if e_lbl e =? l then set_eattrs (del_attr c (e_attrs e)) e else e) (g_edges g).
Proof. exact spec_delete_edge_attr_only. Qed.

(* the equation behind all of the above, for every operation of the editing API *)
Theorem C38_rows_after :
  forall g o g', uniq g -> spec_apply g o = Some g' ->
    Permutation (rows g') (map (after_row g o) (filter (keep_row o) (rows g))).
Proof. exact rows_after. Qed.

(* the executable clauses (codes 10-18) that Check.v evaluates on the IMPLEMENTATION's before/after for a
   delete step hold on the specification's own output, for every graph that passes the executable
   well-formedness test (code 2) - the clauses are consequences of the theorems above, machine-checked *)
Theorem C38_spec_satisfies_executable_clauses :
  forall g o g', wf_b g = true -> is_delete_op o = true -> spec_apply g o = Some g' ->
    prop_codes g o (rows g') (g_edges g') = [].
Proof. exact delete_spec_satisfies_clauses. Qed.

(* non-vacuity: deleting container 1 ("a") whose child "b" collides with the root-level "b":
   the child becomes "b 2", its sibling "c" and grandchild "c.d" are hoisted unchanged, the three
   connections stay attached *)
Definition ex_graph : graph :=
  mkG [Obj 1 [97] [] [Obj 2 [98] [] []; Obj 3 [99] [(2, [114])] [Obj 4 [100] [] []]]; Obj 5 [98] [] []]
      [mkE 1 2 4 false true 0 []; mkE 2 2 5 false true 0 []; mkE 3 2 5 false true 1 []].

Example C38_hypotheses_satisfiable :
  wf_b ex_graph = true
  /\ option_map rows (spec_delete_object ex_graph 1)
     = Some [mkR 2 [[98; 32; 50]] []; mkR 3 [[99]] [(2, [114])]; mkR 4 [[99]; [100]] []; mkR 5 [[98]] []]
  /\ option_map (fun g => length (g_edges g)) (spec_delete_object ex_graph 2) = Some 0%nat
  /\ option_map (fun g => map e_idx (g_edges g)) (spec_delete_edge ex_graph 2) = Some [0; 0].
Proof. vm_compute. repeat split. Qed.

Print Assumptions C38_spec_delete_removes_target_and_attached_edges.
Print Assumptions C38_spec_delete_frames_others.
Print Assumptions C38_spec_delete_hoists_children.
Print Assumptions C38_spec_delete_edge_renumbers.
Print Assumptions C38_spec_delete_edge_keeps_indices_distinct.
Print Assumptions C38_spec_delete_attr_only.
Print Assumptions C38_spec_delete_edge_attr_only.
Print Assumptions C38_rows_after.
Print Assumptions C38_spec_satisfies_executable_clauses.
