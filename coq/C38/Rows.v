(* Part 2: what every spec operation does to the row projection.
   Main results ([rows_after], [edges_after]): for a graph with unique identities and unique IDs,
     rows (op g)  is a permutation of  map (after_row g op) (filter (keep_row op) (rows g))
     edges (op g) =                    map (after_edge g op) (filter (keep_edge op) (edges g))
   where after_row rewrites the ID by the predicted object deltas [obj_deltas] (computed without
   building the edited forest) and leaves identity and attributes alone. *)
From Coq Require Import List Arith NArith Bool Lia Permutation.
Import ListNotations.
Require Import V.Lib.RunCases V.C38.Spec V.C38.Proofs.
Open Scope N_scope.

Definition new_attrs (o : op) (r : orow) : attrs :=
  match o with
  | OpDelObjAttr t c => if r_lbl r =? t then del_attr c (r_attrs r) else r_attrs r
  | _ => r_attrs r
  end.
Definition after_row (g : graph) (o : op) (r : orow) : orow :=
  mkR (r_lbl r) (new_path g o (r_path r)) (new_attrs o r).
Definition keep_row (o : op) (r : orow) : bool := negb (removed_obj o (r_lbl r)).

Definition after_edge (g : graph) (o : op) (e : edge) : edge :=
  match o with
  | OpDelEdge l => match find_edge l (g_edges g) with Some d => renumber d e | None => e end
  | OpDelEdgeAttr l c => if e_lbl e =? l then set_eattrs (del_attr c (e_attrs e)) e else e
  | _ => e
  end.
Definition keep_edge (o : op) (e : edge) : bool := negb (removed_edge o e).

(* the hypotheses on the graph before: identities unique, IDs unique *)
Definition uniq (g : graph) : Prop := NoDup (labels (rows g)) /\ NoDup (paths (rows g)).

(* ------------------------------------------------------------------ list helpers *)

Lemma paths_app a b : paths (a ++ b) = paths a ++ paths b.
Proof. apply map_app. Qed.
Lemma labels_app a b : labels (a ++ b) = labels a ++ labels b.
Proof. apply map_app. Qed.

Lemma NoDup_app_mid {A} (a : list A) x b : NoDup (a ++ x :: b) -> NoDup (a ++ b) /\ ~ In x (a ++ b).
Proof. intro H. split; [eapply NoDup_remove_1 | eapply NoDup_remove_2]; eauto. Qed.

Lemma combine_maps {A B C D} (f : A -> C) (g : B -> D) a b :
  combine (map f a) (map g b) = map (fun p => (f (fst p), g (snd p))) (combine a b).
Proof. revert b; induction a; intros [|y b]; cbn; auto. f_equal. apply IHa. Qed.

Lemma zip_paths_fst K K' : length K = length K' -> map fst (zip_paths K K') = paths K.
Proof. intro H. unfold zip_paths. apply combine_map_fst. unfold paths. rewrite !map_length. exact H. Qed.

Lemma zip_paths_In K K' r r' : In (r, r') (combine K K') -> In (r_path r, r_path r') (zip_paths K K').
Proof.
  intro H. unfold zip_paths, paths. rewrite combine_maps.
  apply in_map_iff. exists (r, r'). split; auto.
Qed.

(* Rewriting a list around a segment K by the zip of K with its image K' *)
Lemma segment_rewrite A K K' B d :
  NoDup (paths (A ++ K ++ B)) ->
  Forall2 same_la K K' ->
  (forall k v, In (k, v) (zip_paths K K') -> plookup k d = Some v) ->
  (forall p, In p (map fst d) -> In p (paths K) \/ ~ In p (paths (A ++ K ++ B))) ->
  map (newrow d) (A ++ K ++ B) = A ++ K' ++ B.
Proof.
  intros ND F Hz Hk. rewrite !map_app. f_equal; [|f_equal].
  - apply map_newrow_outside. intros r Hr Hin. destruct (Hk _ Hin) as [H1 | H1].
    + rewrite paths_app in ND. eapply NoDup_app_disj; [exact ND | apply in_map; exact Hr |].
      rewrite paths_app. apply in_or_app; left; exact H1.
    + apply H1. rewrite paths_app. apply in_or_app; left. apply in_map; exact Hr.
  - apply newrow_zip_gen; auto. intros r r' Hrr. apply Hz. apply zip_paths_In; auto.
  - apply map_newrow_outside. intros r Hr Hin. destruct (Hk _ Hin) as [H1 | H1].
    + rewrite paths_app in ND. apply NoDup_app_r in ND. rewrite paths_app in ND.
      eapply NoDup_app_disj; [exact ND | exact H1 | apply in_map; exact Hr].
    + apply H1. rewrite !paths_app. apply in_or_app; right. apply in_or_app; right. apply in_map; exact Hr.
Qed.

Lemma segment_rewrite_zip A K K' B :
  NoDup (paths (A ++ K ++ B)) -> Forall2 same_la K K' ->
  map (newrow (zip_paths K K')) (A ++ K ++ B) = A ++ K' ++ B.
Proof.
  intros ND F. pose proof (Forall2_length' _ _ _ F) as L.
  apply segment_rewrite; auto.
  - intros k v H. apply plookup_unique; auto. rewrite zip_paths_fst by exact L.
    rewrite !paths_app in ND. apply NoDup_app_r in ND. apply NoDup_app_l in ND. exact ND.
  - intros p H. rewrite zip_paths_fst in H by exact L. left; exact H.
Qed.

(* only one row carries a given identity *)
Lemma filter_out_label A x B :
  NoDup (labels (A ++ x :: B)) ->
  filter (fun r => negb (r_lbl r =? r_lbl x)) (A ++ x :: B) = A ++ B.
Proof.
  intro ND. rewrite labels_app in ND. cbn in ND. apply NoDup_app_mid in ND as [_ Hx].
  rewrite filter_app. cbn [filter]. rewrite N.eqb_refl. cbn [negb].
  assert (Hf : forall L, (forall r, In r L -> r_lbl r <> r_lbl x) ->
                         filter (fun r => negb (r_lbl r =? r_lbl x)) L = L).
  { induction L as [|r L IH]; intro H; [reflexivity|]. cbn [filter].
    assert (E : (r_lbl r =? r_lbl x) = false) by (apply N.eqb_neq; apply H; left; auto).
    rewrite E. cbn [negb]. f_equal. apply IH. intros; apply H; right; auto. }
  rewrite !Hf; auto.
  - intros r Hr E. apply Hx. apply in_or_app; right. rewrite <- E. apply in_map; auto.
  - intros r Hr E. apply Hx. apply in_or_app; left. rewrite <- E. apply in_map; auto.
Qed.

(* ------------------------------------------------------------------ hoisting *)

Definition renamed (k k' : obj) : Prop := exists n', k' = set_name n' k.

Lemma set_name_same k : set_name (oname k) k = k.
Proof. destruct k; reflexivity. Qed.

Lemma hoist_renamed sib ex xn all : forall ks asg, Forall2 renamed ks (hoist sib ex xn all asg ks).
Proof.
  induction ks as [|k r IH]; intro asg; cbn [hoist]; [constructor|].
  destruct (str_eqb (oname k) xn).
  - constructor; [exists (oname k); symmetry; apply set_name_same | apply IH].
  - destruct (smem (oname k) sib || smem (oname k) asg).
    + constructor; [eexists; reflexivity | apply IH].
    + constructor; [exists (oname k); symmetry; apply set_name_same | apply IH].
Qed.

Lemma hoist_kids_renamed sib xn ks : Forall2 renamed ks (hoist_kids sib xn ks).
Proof. unfold hoist_kids. apply hoist_renamed. Qed.

Lemma Forall2_app' {A B} (R : A -> B -> Prop) a a' b b' :
  Forall2 R a a' -> Forall2 R b b' -> Forall2 R (a ++ b) (a' ++ b').
Proof. induction 1; cbn; auto. Qed.

Lemma flat_o_same_la_renamed k k' p q : renamed k k' -> Forall2 same_la (flat_o p k) (flat_o q k').
Proof.
  intros [n' ->]. rewrite flat_o_unfold, flat_o_set_name_kids. constructor.
  - split; reflexivity.
  - apply flat_f_same_la.
Qed.

Lemma flat_f_same_la_renamed ks ks' p q : Forall2 renamed ks ks' -> Forall2 same_la (flat_f p ks) (flat_f q ks').
Proof.
  induction 1 as [|k k' ks ks' Hk _ IH]; [constructor|].
  rewrite !flat_f_cons. apply Forall2_app'; auto. apply flat_o_same_la_renamed; auto.
Qed.

(* ------------------------------------------------------------------ the object deltas are a zip with unique keys *)

Lemma flat_o_head p x : exists K, flat_o p x = mkR (lbl x) (p ++ [oname x]) (oattrs x) :: K
                                   /\ K = flat_f (p ++ [oname x]) (kids x).
Proof. eexists. split; [apply flat_o_unfold | reflexivity]. Qed.

(* ------------------------------------------------------------------ delete object *)

Lemma delete_rows_forest f t sl pp a x b :
  NoDup (labels (flat_f [] f)) -> NoDup (paths (flat_f [] f)) ->
  find_obj t f = Some (sl, pp, a, x, b) ->
  let K := flat_f (pp ++ [oname x]) (kids x) in
  let K' := flat_f pp (hoist_kids (names (a ++ b)) (oname x) (kids x)) in
  flat_f [] (set_list sl (a ++ hoist_kids (names (a ++ b)) (oname x) (kids x) ++ b) f)
  = map (newrow (zip_paths K K')) (filter (fun r => negb (r_lbl r =? t)) (flat_f [] f)).
Proof.
  intros NL NP Hf K K'.
  destruct (find_obj_rows _ _ _ _ _ _ _ Hf) as [A [B [E1 E2]]].
  destruct (find_obj_sound _ _ _ _ _ _ _ Hf) as [_ Lx].
  rewrite E2. rewrite E1 in *. rewrite flat_o_unfold in *. fold K in NL, NP |- *.
  cbn [app] in *. subst t.
  change (lbl x) with (r_lbl (mkR (lbl x) (pp ++ [oname x]) (oattrs x))).
  rewrite filter_out_label by exact NL.
  symmetry. apply segment_rewrite_zip.
  - rewrite paths_app in NP. cbn in NP. apply NoDup_app_mid in NP as [NP _]. rewrite paths_app. exact NP.
  - apply flat_f_same_la_renamed. apply hoist_kids_renamed.
Qed.
