(* Part 7: the executable clauses for deleting an object (hoisting). *)
From Coq Require Import List Arith NArith Bool Lia Permutation.
Import ListNotations.
Require Import V.Lib.RunCases V.C38.Spec V.C38.Clauses V.C38.Proofs V.C38.Rows V.C38.Ops V.C38.Main V.C38.Paths
               V.C38.Theorems V.C40.Proofs V.C39.Proofs V.C38.Tie.
Open Scope N_scope.

Lemma skipn_last {A} (p : list A) n : skipn (S (length p)) (p ++ [n]) = [].
Proof.
  replace (S (length p)) with (length (p ++ [n])) by (rewrite app_length; cbn; lia).
  rewrite <- (app_nil_r (p ++ [n])) at 2. apply skipn_app_exact.
Qed.

Lemma nonempty_snoc {A} (p : list A) n : nonempty (p ++ [n]) = true.
Proof. destruct p; reflexivity. Qed.

(* rows strictly below the target never carry the target's identity *)
Lemma kid_rows_not_target g t sl pp a x b r :
  uniq g -> find_obj t (g_objs g) = Some (sl, pp, a, x, b) ->
  In r (flat_f (pp ++ [oname x]) (kids x)) -> r_lbl r <> t.
Proof.
  intros [NL NP] Hf Hr E. pose proof (find_obj_target_row _ _ _ _ _ _ _ Hf) as Ht.
  assert (Hrows : In r (rows g)).
  { eapply subtree_in_rows; eauto. rewrite flat_o_unfold. right; exact Hr. }
  assert (r = mkR t (pp ++ [oname x]) (oattrs x)) by (eapply NoDup_labels_inj; eauto). subst r.
  destruct (flat_f_prefix _ _ _ Hr) as [rest [Ep Hne]]. cbn in Ep.
  rewrite <- (app_nil_r (pp ++ [oname x])) in Ep at 1. apply app_inv_head in Ep. congruence.
Qed.

Lemma nth_combine {A B} (l : list A) (l' : list B) j x y :
  nth_error l j = Some x -> nth_error l' j = Some y -> In (x, y) (combine l l').
Proof.
  revert l' j. induction l as [|a l IH]; intros [|b l'] [|j] A0 B0; cbn in *; try discriminate.
  - inversion A0; inversion B0; subst. left; reflexivity.
  - right. eapply IH; eauto.
Qed.

Lemma renamed_in_combine ks ks' k k' : Forall2 renamed ks ks' -> In (k, k') (combine ks ks') -> renamed k k'.
Proof.
  induction 1; cbn; intro Hc; [contradiction|]. destruct Hc as [E | Hc]; auto. inversion E; subst; auto.
Qed.

(* every row below child number i ends up below the former parent under the name of hoisted child i *)
Lemma hoist_rows_gen g o g' t sl pp a x b :
  uniq g -> spec_apply g o = Some g' -> find_obj t (g_objs g) = Some (sl, pp, a, x, b) ->
  let ks' := hoist_kids (names (a ++ b)) (oname x) (kids x) in
  let xp := pp ++ [oname x] in
  let hz := zip_paths (flat_f xp (kids x)) (flat_f pp ks') in
  (forall r, In r (flat_f xp (kids x)) ->
             keep_row o r = true /\ new_attrs o r = r_attrs r /\ new_path g o (r_path r) = papply hz (r_path r)) ->
  forall i k k', nth_error (kids x) i = Some k -> nth_error ks' i = Some k' ->
  forall r, In r (flat_o xp k) ->
    lookup_row (r_lbl r) (rows g')
    = Some (mkR (r_lbl r) (pp ++ oname k' :: skipn (S (length xp)) (r_path r)) (r_attrs r)).
Proof.
  intros U H Hf ks' xp hz Hk i k k' Ek Ek' r Hr.
  pose proof (hoist_kids_renamed (names (a ++ b)) (oname x) (kids x)) as F. fold ks' in F.
  pose proof (nth_combine _ _ _ _ _ Ek Ek') as Hc.
  destruct (renamed_in_combine _ _ _ _ F Hc) as [n' ->].
  assert (Hsub : In r (flat_f xp (kids x))) by (eapply In_flat_f; [eapply nth_error_In; eauto | exact Hr]).
  assert (Hrows : In r (rows g)) by (eapply subtree_in_rows; eauto; rewrite flat_o_unfold; right; exact Hsub).
  destruct (Hk r Hsub) as [K [Ea Ep]].
  rewrite (lookup_after_kept _ _ _ _ U H Hrows K). f_equal. unfold after_row. rewrite Ea, Ep. f_equal.
  replace (oname (set_name n' k)) with n' by (destruct k; reflexivity).
  apply (zip_lookup_child pp xp (kids x) ks' k n' r); auto.
  pose proof (subtree_paths_NoDup _ _ _ _ _ _ _ U Hf) as ND. rewrite flat_o_unfold in ND.
  cbn [paths map] in ND. inversion ND; subst. assumption.
Qed.

Lemma tie_hoist_place RA pp x (ks' : forest) :
  length ks' = length (kids x) ->
  (forall i k k', nth_error (kids x) i = Some k -> nth_error ks' i = Some k' ->
     forall r, In r (flat_o (pp ++ [oname x]) k) ->
       lookup_row (r_lbl r) RA
       = Some (mkR (r_lbl r) (pp ++ oname k' :: skipn (S (length (pp ++ [oname x]))) (r_path r)) (r_attrs r))) ->
  c_hoist_place RA pp x = true.
Proof.
  intros L Hh. unfold c_hoist_place. apply forallb_forall. intros k Hk.
  apply In_nth_error in Hk as [i Ei].
  assert (Ei' : exists k', nth_error ks' i = Some k').
  { destruct (nth_error ks' i) eqn:E; eauto. exfalso. apply nth_error_None in E. rewrite L in E.
    apply nth_error_None in E. congruence. }
  destruct Ei' as [k' Ei'].
  pose proof (Hh i k k' Ei Ei' _ (In_flat_o_head (pp ++ [oname x]) k)) as Hhead.
  cbn [r_lbl r_path r_attrs] in Hhead. rewrite skipn_last in Hhead. rewrite Hhead. cbn [r_path].
  change (pp ++ [oname k']) with (pp ++ [oname k']).
  rewrite nonempty_snoc, removelast_last, path_eqb_refl. cbn [andb].
  apply forallb_forall. intros r Hr. rewrite (Hh i k k' Ei Ei' r Hr). cbn [r_path].
  apply path_eqb_eq. rewrite <- app_assoc. reflexivity.
Qed.

(* two different children of one object never share an identity *)
Lemma kids_labels_distinct g t sl pp a x b j i k2 k :
  uniq g -> find_obj t (g_objs g) = Some (sl, pp, a, x, b) ->
  (j < i)%nat -> nth_error (kids x) j = Some k2 -> nth_error (kids x) i = Some k -> lbl k2 <> lbl k.
Proof.
  intros U Hf Lt E2 E1 El. destruct U as [NL _].
  destruct (nth_error_split _ _ E2) as [l1 [l2 [Ek Len]]].
  assert (Hin : In k l2).
  { rewrite Ek in E1. rewrite nth_error_app2 in E1 by lia.
    replace (i - length l1)%nat with (S (i - length l1 - 1)) in E1 by lia. cbn in E1.
    eapply nth_error_In; eauto. }
  destruct (find_obj_rows _ _ _ _ _ _ _ Hf) as [A [B [E1' _]]]. unfold rows in NL.
  rewrite E1', flat_o_unfold, Ek in NL. rewrite flat_f_app, flat_f_cons in NL.
  rewrite !labels_app in NL. apply NoDup_app_r in NL. cbn [labels map app] in NL.
  inversion NL as [|? ? _ NL1]; subst. unfold labels in NL1. rewrite !map_app in NL1.
  apply NoDup_app_l in NL1. apply NoDup_app_r in NL1.
  eapply (NoDup_app_disj _ _ (lbl k2) NL1).
  - change (lbl k2) with (r_lbl (mkR (lbl k2) ((pp ++ [oname x]) ++ [oname k2]) (oattrs k2))).
    apply in_map. apply In_flat_o_head.
  - rewrite El. change (lbl k) with (r_lbl (mkR (lbl k) ((pp ++ [oname x]) ++ [oname k]) (oattrs k))).
    apply in_map. eapply In_flat_f; [exact Hin | apply In_flat_o_head].
Qed.

(* a sibling of the target: its row is outside the target's subtree *)
Lemma sibling_row_outside g t sl pp a x b s :
  uniq g -> find_obj t (g_objs g) = Some (sl, pp, a, x, b) -> In s (a ++ b) ->
  In (mkR (lbl s) (pp ++ [oname s]) (oattrs s)) (rows g)
  /\ ~ In (mkR (lbl s) (pp ++ [oname s]) (oattrs s)) (flat_o pp x).
Proof.
  intros [NL _] Hf Hs. destruct (find_obj_sound _ _ _ _ _ _ _ Hf) as [G _].
  destruct (get_set_flat _ _ _ _ _ G) as [A [B [E1 _]]]. unfold rows in *.
  rewrite E1 in *. rewrite flat_f_app, flat_f_cons in *.
  set (rs := mkR (lbl s) (pp ++ [oname s]) (oattrs s)).
  assert (Hside : In rs (flat_f pp a) \/ In rs (flat_f pp b)).
  { apply in_app_or in Hs as [Hs | Hs]; [left | right]; eapply In_flat_f; eauto; apply In_flat_o_head. }
  split.
  - apply in_or_app; right. apply in_or_app; left.
    destruct Hside as [Hs' | Hs']; apply in_or_app; [left; auto | right; apply in_or_app; right; auto].
  - intro Hx. rewrite !labels_app in NL. apply NoDup_app_r in NL. apply NoDup_app_l in NL.
    destruct Hside as [Hs' | Hs'].
    + eapply (NoDup_app_disj _ _ (r_lbl rs) NL); [apply in_map; exact Hs'|].
      apply in_or_app; left. apply in_map; exact Hx.
    + apply NoDup_app_r in NL.
      eapply (NoDup_app_disj _ _ (r_lbl rs) NL); apply in_map; eauto.
Qed.

Lemma nth_error_firstn_lt {A} (l : list A) i j : (j < i)%nat -> nth_error (firstn i l) j = nth_error l j.
Proof.
  revert i j. induction l as [|x l IH]; intros [|i] [|j] L; cbn; try lia; auto. apply IH. lia.
Qed.

Theorem tie_delete_object g t g' :
  wf g -> spec_apply g (OpDelObj t) = Some g' -> prop_codes g (OpDelObj t) (rows g') (g_edges g') = [].
Proof.
  intros W H. pose proof W as [U _]. cbn [prop_codes].
  pose proof H as H0. cbn [spec_apply] in H0. unfold spec_delete_object in H0.
  destruct (find_obj t (g_objs g)) as [[[[[sl pp] a] x] b]|] eqn:Hf; [|discriminate]. clear H0.
  set (xp := pp ++ [oname x]). set (ks' := hoist_kids (names (a ++ b)) (oname x) (kids x)).
  assert (Hrows : forall i k k', nth_error (kids x) i = Some k -> nth_error ks' i = Some k' ->
            forall r, In r (flat_o xp k) ->
              lookup_row (r_lbl r) (rows g')
              = Some (mkR (r_lbl r) (pp ++ oname k' :: skipn (S (length xp)) (r_path r)) (r_attrs r))).
  { apply (hoist_rows_gen g (OpDelObj t) g' t sl pp a x b U H Hf). intros r Hr. repeat split.
    - unfold keep_row. cbn. apply negb_true_iff, N.eqb_neq. eapply kid_rows_not_target; eauto.
    - unfold new_path. cbn [obj_deltas]. rewrite Hf. reflexivity. }
  assert (Lks : length ks' = length (kids x)).
  { symmetry. eapply Forall2_length'. apply hoist_kids_renamed. }
  rewrite (tie_gone g _ g' W H) by (intros; cbn; try apply N.eqb_sym; reflexivity).
  rewrite (tie_kept g _ g' W H) by (intros; cbn; try apply N.eqb_sym; reflexivity).
  rewrite (tie_nonew g _ g' W H).
  rewrite (tie_attrs g _ g' W H) by reflexivity.
  rewrite (tie_paths_same g _ g' W H).
  2:{ intros r Hr M K. apply (new_path_outside g (OpDelObj t) t sl pp a x b r U Hf (delete_keys _ _ _ _ _ _ _ Hf) Hr).
      rewrite flat_o_unfold. intros [E | Hin].
      - unfold keep_row in K. cbn in K. rewrite <- E in K. cbn in K.
        destruct (find_obj_sound _ _ _ _ _ _ _ Hf) as [_ Lx]. rewrite Lx, N.eqb_refl in K. discriminate.
      - apply nmem_false in M. apply M. apply in_map. exact Hin. }
  rewrite (tie_idx g _ g' W H) by reflexivity.
  rewrite (tie_hoist_place (rows g') pp x ks' Lks Hrows).
  assert (C16 : c_hoist_names (rows g') pp x = true).
  { unfold c_hoist_names. apply forallb_forall. intros k Hk. apply In_nth_error in Hk as [i Ei].
    assert (Ei' : exists k', nth_error ks' i = Some k').
    { destruct (nth_error ks' i) eqn:E; eauto. exfalso. apply nth_error_None in E. rewrite Lks in E.
      apply nth_error_None in E. congruence. }
    destruct Ei' as [k' Ei'].
    pose proof (Hrows i k k' Ei Ei' _ (In_flat_o_head xp k)) as Hhead.
    cbn [r_lbl r_path r_attrs] in Hhead. unfold xp in Hhead at 2. rewrite skipn_last in Hhead. rewrite Hhead. cbn [r_path].
    destruct (hoist_kids_conflict _ _ _ _ _ _ Ei Ei') as [E | [E | E]].
    - rewrite E. rewrite path_eqb_refl. reflexivity.
    - (* a sibling of the deleted object has this name and is unchanged *)
      apply orb_true_iff; right. unfold names in E. apply in_map_iff in E as [s [Es Hs]].
      destruct (sibling_row_outside g t sl pp a x b s U Hf Hs) as [Hin Hout].
      pose proof (spec_delete_frames_others g t g' sl pp a x b U H Hf) as [Hfr _].
      pose proof (Hfr _ Hin Hout) as Hl. cbn [r_lbl] in Hl. apply lookup_row_In in Hl as [Hra _].
      apply existsb_exists. eexists. split; [exact Hra|]. cbn [r_lbl r_path]. rewrite Es, path_eqb_refl, andb_true_r.
      apply negb_true_iff, N.eqb_neq. intro El. apply Hout.
      assert (Hk : In (mkR (lbl k) (xp ++ [oname k]) (oattrs k)) (rows g)).
      { eapply subtree_in_rows; eauto. rewrite flat_o_unfold. right.
        eapply In_flat_f; [eapply nth_error_In; eauto | apply In_flat_o_head]. }
      destruct U as [NL _].
      rewrite (NoDup_labels_inj _ _ _ NL Hin Hk El). rewrite flat_o_unfold. right.
      eapply In_flat_f; [eapply nth_error_In; eauto | apply In_flat_o_head].
    - (* an earlier hoisted child took this name *)
      apply orb_true_iff; right. unfold names at 1 in E. apply in_map_iff in E as [k2' [En Hin2]].
      apply In_nth_error in Hin2 as [j Ej].
      assert (Lt : (j < i)%nat).
      { assert (HL : (j < length (firstn i ks'))%nat) by (apply nth_error_Some; fold ks' in Ej; rewrite Ej; discriminate).
        rewrite firstn_length in HL. lia. }
      fold ks' in Ej.
      rewrite nth_error_firstn_lt in Ej by exact Lt.
      assert (Ej' : exists k2, nth_error (kids x) j = Some k2).
      { destruct (nth_error (kids x) j) eqn:E; eauto. exfalso. apply nth_error_None in E.
        assert (i < length (kids x))%nat by (apply nth_error_Some; congruence). lia. }
      destruct Ej' as [k2 Ej'].
      pose proof (Hrows j k2 k2' Ej' Ej _ (In_flat_o_head xp k2)) as Hh2.
      cbn [r_lbl r_path r_attrs] in Hh2. unfold xp in Hh2 at 2. rewrite skipn_last in Hh2.
      apply lookup_row_In in Hh2 as [Hra _].
      apply existsb_exists. eexists. split; [exact Hra|]. cbn [r_lbl r_path]. rewrite En, path_eqb_refl, andb_true_r.
      apply negb_true_iff, N.eqb_neq. eapply kids_labels_distinct; eauto. }
  rewrite C16. reflexivity.
Qed.

Definition is_delete_op (o : op) : bool :=
  match o with OpDelObj _ | OpDelEdge _ | OpDelObjAttr _ _ | OpDelEdgeAttr _ _ => true | _ => false end.

(* all clauses (codes 10-18) that Check.v evaluates on the implementation's output for a delete step
   hold on the specification's output, for every graph that passes the executable well-formedness test *)
Theorem delete_spec_satisfies_clauses g o g' :
  wf_b g = true -> is_delete_op o = true -> spec_apply g o = Some g' ->
  prop_codes g o (rows g') (g_edges g') = [].
Proof.
  intros Wb D H. apply wf_b_wf in Wb. destruct o; try discriminate.
  - apply tie_delete_object; auto.
  - apply tie_delete_edge; auto.
  - apply tie_delete_obj_attr; auto.
  - apply tie_delete_edge_attr; auto.
Qed.
