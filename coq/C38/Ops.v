(* Part 3: the row equation for every operation ([rows_after], [edges_after]). *)
From Coq Require Import List Arith NArith Bool Lia Permutation.
Import ListNotations.
Require Import V.Lib.RunCases V.C38.Spec V.C38.Proofs V.C38.Rows.
Open Scope N_scope.

(* ------------------------------------------------------------------ helpers *)

Lemma filter_all {A} (f : A -> bool) l : (forall x, In x l -> f x = true) -> filter f l = l.
Proof.
  induction l as [|x l IH]; intro H; [reflexivity|]. cbn. rewrite (H x) by (left; auto).
  f_equal. apply IH. intros; apply H; right; auto.
Qed.

Lemma newrow_nil r : newrow [] r = r.
Proof. unfold newrow, papply. cbn. apply orow_eta. Qed.
Lemma map_newrow_nil rs : map (newrow []) rs = rs.
Proof. induction rs; cbn; [auto | rewrite newrow_nil, IHrs; auto]. Qed.

Lemma NoDup_labels_inj L r r' : NoDup (labels L) -> In r L -> In r' L -> r_lbl r = r_lbl r' -> r = r'.
Proof.
  intros ND H H' E. pose proof (lookup_row_unique L r ND H) as E1.
  pose proof (lookup_row_unique L r' ND H') as E2. rewrite E in E1. congruence.
Qed.

Lemma get_list_app : forall sl pre f i,
  get_list (sl ++ [i]) pre f =
  match get_list sl pre f with
  | Some (pp, sibs) => match nth_error sibs i with
                       | Some x => Some (pp ++ [oname x], kids x)
                       | None => None
                       end
  | None => None
  end.
Proof.
  induction sl as [|j r IH]; intros pre f i; cbn [app get_list].
  - destruct (nth_error f i) as [[l n a ks]|]; reflexivity.
  - destruct (nth_error f j) as [[l n a ks]|]; [apply IH | reflexivity].
Qed.

Lemma In_flat_o_head p x : In (mkR (lbl x) (p ++ [oname x]) (oattrs x)) (flat_o p x).
Proof. rewrite flat_o_unfold. left; reflexivity. Qed.

Lemma In_flat_f p f x r : In x f -> In r (flat_o p x) -> In r (flat_f p f).
Proof. intros Hx Hr. unfold flat_f. apply in_flat_map. exists x; auto. Qed.

(* the destination object has a row carrying the path of its child list *)
Lemma dest_row dlbl f loc p ks :
  dest_loc (Some dlbl) f = Some loc -> get_list loc [] f = Some (p, ks) ->
  exists a, In (mkR dlbl p a) (flat_f [] f).
Proof.
  cbn [dest_loc]. destruct (locate dlbl f) as [[sl i]|] eqn:E; [|discriminate].
  intros [= <-]. rewrite get_list_app.
  destruct (locate_sound _ _ _ _ E) as [pp [sibs [x [G [Nx Lx]]]]].
  rewrite G, Nx. intros [= <- <-]. exists (oattrs x). subst dlbl.
  destruct (get_set_flat _ _ _ _ _ G) as [A [B [E1 _]]]. rewrite E1.
  apply in_or_app; right. apply in_or_app; left.
  eapply In_flat_f; [eapply nth_error_In; eauto | apply In_flat_o_head].
Qed.

Lemma dest_root f loc p ks : dest_loc None f = Some loc -> get_list loc [] f = Some (p, ks) -> p = [].
Proof. cbn. intros [= <-]. cbn. intros [= <- _]. reflexivity. Qed.

(* keys of a zip of rows below a prefix are never the empty path *)
Lemma plookup_nil_zip p ks K' : plookup [] (zip_paths (flat_f p ks) K') = None.
Proof.
  apply plookup_None. intro H. unfold zip_paths in H.
  assert (H' : In [] (paths (flat_f p ks))).
  { clear -H. revert H. generalize (paths (flat_f p ks)) (paths K').
    induction l as [|k l IH]; intros [|v l0] H; cbn in *; try contradiction.
    destruct H as [H | H]; [left; exact H | right; eapply IH; eauto]. }
  unfold paths in H'. apply in_map_iff in H' as [r [E Hr]].
  destruct (flat_f_prefix _ _ _ Hr) as [rest [E2 Hne]]. rewrite E in E2.
  destruct p; destruct rest; cbn in E2; try discriminate. congruence.
Qed.

Lemma Permutation_insert {A} (C F X D : list A) : Permutation (C ++ (F ++ X) ++ D) (X ++ C ++ F ++ D).
Proof.
  rewrite <- !app_assoc. rewrite (app_assoc C F (X ++ D)).
  etransitivity; [apply Permutation_app_swap_app|]. rewrite <- app_assoc. reflexivity.
Qed.

(* ------------------------------------------------------------------ rename in place *)

Lemma rename_rows_forest f t sl pp a x b n' :
  NoDup (paths (flat_f [] f)) ->
  find_obj t f = Some (sl, pp, a, x, b) ->
  flat_f [] (set_list sl (a ++ set_name n' x :: b) f)
  = map (newrow (zip_paths (flat_o pp x) (flat_o pp (set_name n' x)))) (flat_f [] f).
Proof.
  intros NP Hf. destruct (find_obj_rows _ _ _ _ _ _ _ Hf) as [A [B [E1 E2]]].
  change (a ++ set_name n' x :: b) with (a ++ [set_name n' x] ++ b).
  rewrite E2, E1. rewrite flat_f_cons, flat_f_nil, app_nil_r.
  symmetry. apply segment_rewrite_zip.
  - rewrite <- E1. exact NP.
  - apply flat_o_same_la_renamed. eexists; reflexivity.
Qed.

(* ------------------------------------------------------------------ attribute deletion *)

Lemma flat_o_map_obj t fa : forall o p,
  flat_o p (map_obj t fa o)
  = map (fun r => mkR (r_lbl r) (r_path r) (if r_lbl r =? t then fa (r_attrs r) else r_attrs r)) (flat_o p o).
Proof.
  induction o as [l n a ks IH] using obj_ind'. intro p. cbn [map_obj]. rewrite !flat_o_eq. cbn [map].
  f_equal. unfold flat_f. rewrite Forall_forall in IH. clear a.
  induction ks as [|k r IHr]; [reflexivity|]. cbn [map flat_map]. rewrite map_app. f_equal.
  - apply IH. left; auto.
  - apply IHr. intros; apply IH; right; auto.
Qed.

Lemma flat_f_map_obj t fa f p :
  flat_f p (map (map_obj t fa) f)
  = map (fun r => mkR (r_lbl r) (r_path r) (if r_lbl r =? t then fa (r_attrs r) else r_attrs r)) (flat_f p f).
Proof.
  unfold flat_f. induction f as [|o r IH]; [reflexivity|]. cbn [map flat_map]. rewrite map_app, IH.
  f_equal. apply flat_o_map_obj.
Qed.

(* ------------------------------------------------------------------ move across scopes *)

(* moving the whole subtree *)
Lemma move_incl_rows f t sl pp a x b d dl dp dks n' f1 dl1 dp1 dks1 :
  NoDup (labels (flat_f [] f)) -> NoDup (paths (flat_f [] f)) ->
  find_obj t f = Some (sl, pp, a, x, b) ->
  dest_loc d f = Some dl -> get_list dl [] f = Some (dp, dks) ->
  f1 = set_list sl (a ++ b) f ->
  dest_loc d f1 = Some dl1 -> get_list dl1 [] f1 = Some (dp1, dks1) ->
  Permutation (flat_f [] (set_list dl1 (dks1 ++ [set_name n' x]) f1))
              (map (newrow (zip_paths (flat_o pp x) (flat_o dp (set_name n' x)))) (flat_f [] f)).
Proof.
  intros NL NP Hf Hd Hg -> Hd1 Hg1.
  destruct (find_obj_rows _ _ _ _ _ _ _ Hf) as [A [B [E1 E2]]].
  pose proof (E2 []) as E3. cbn [app] in E3. rewrite flat_f_nil in E3. cbn [app] in E3.
  (* the destination's path is the same before and after the removal *)
  assert (Edp : dp1 = dp).
  { destruct d as [dlbl|].
    - destruct (dest_row _ _ _ _ _ Hd1 Hg1) as [a1 H1]. destruct (dest_row _ _ _ _ _ Hd Hg) as [a0 H0].
      rewrite E3 in H1. assert (H1' : In (mkR dlbl dp1 a1) (flat_f [] f)).
      { rewrite E1. apply in_app_or in H1 as [H1|H1]; apply in_or_app; [left | right; apply in_or_app; right]; auto. }
      pose proof (NoDup_labels_inj _ _ _ NL H1' H0 eq_refl) as E. congruence.
    - rewrite (dest_root _ _ _ _ Hd1 Hg1), (dest_root _ _ _ _ Hd Hg). reflexivity. }
  subst dp1.
  destruct (get_set_flat _ _ _ _ _ Hg1) as [C [D [F1 F2]]].
  rewrite F2, flat_f_app, flat_f_cons, flat_f_nil, app_nil_r.
  rewrite E1. rewrite segment_rewrite_zip.
  - rewrite Permutation_insert. rewrite <- F1, E3.
    apply Permutation_app_swap_app.
  - rewrite <- E1. exact NP.
  - apply flat_o_same_la_renamed. eexists; reflexivity.
Qed.

(* moving the object alone: its children are hoisted *)
Lemma move_alone_rows f t sl pp a x b d dl dp dks n' f1 dl1 dp1 dks1 :
  NoDup (labels (flat_f [] f)) -> NoDup (paths (flat_f [] f)) ->
  find_obj t f = Some (sl, pp, a, x, b) ->
  dest_loc d f = Some dl -> get_list dl [] f = Some (dp, dks) ->
  f1 = set_list sl (a ++ hoist_kids (names (a ++ b)) (oname x) (kids x) ++ b) f ->
  dest_loc d f1 = Some dl1 -> get_list dl1 [] f1 = Some (dp1, dks1) ->
  let hz := zip_paths (flat_f (pp ++ [oname x]) (kids x))
                      (flat_f pp (hoist_kids (names (a ++ b)) (oname x) (kids x))) in
  Permutation (flat_f [] (set_list dl1 (dks1 ++ [set_kids [] (set_name n' x)]) f1))
              (map (newrow ((pp ++ [oname x], papply hz dp ++ [n']) :: hz)) (flat_f [] f)).
Proof.
  intros NL NP Hf Hd Hg -> Hd1 Hg1 hz.
  pose proof (delete_rows_forest _ _ _ _ _ _ _ NL NP Hf) as E3. cbv zeta in E3. fold hz in E3.
  destruct (find_obj_rows _ _ _ _ _ _ _ Hf) as [A [B [E1 E2]]].
  destruct (find_obj_sound _ _ _ _ _ _ _ Hf) as [_ Lx].
  set (K := flat_f (pp ++ [oname x]) (kids x)) in *.
  set (K' := flat_f pp (hoist_kids (names (a ++ b)) (oname x) (kids x))) in *.
  set (xr := mkR (lbl x) (pp ++ [oname x]) (oattrs x)).
  assert (EF : flat_f [] f = A ++ xr :: K ++ B) by (rewrite E1, flat_o_unfold; reflexivity).
  assert (F : Forall2 same_la K K') by (apply flat_f_same_la_renamed, hoist_kids_renamed).
  assert (L : length K = length K') by (eapply Forall2_length'; eauto).
  (* unique paths: xr's path is not in A, K, B *)
  pose proof NP as NP0. rewrite EF, paths_app in NP0. cbn [paths map] in NP0.
  apply NoDup_app_mid in NP0 as [NP1 Hxr]. fold (paths (K ++ B)) in NP1, Hxr. rewrite <- paths_app in NP1, Hxr.
  change (r_path xr) with (pp ++ [oname x]) in Hxr.
  (* rows after hoisting *)
  assert (E4 : flat_f [] (set_list sl (a ++ hoist_kids (names (a ++ b)) (oname x) (kids x) ++ b) f) = A ++ K' ++ B)
    by (apply E2).
  (* path of the destination after hoisting *)
  assert (Edp : dp1 = papply hz dp).
  { destruct d as [dlbl|].
    - destruct (dest_row _ _ _ _ _ Hd1 Hg1) as [a1 H1]. destruct (dest_row _ _ _ _ _ Hd Hg) as [a0 H0].
      assert (Nt : dlbl <> t).
      { intro Et. subst dlbl. rewrite E3 in H1. apply in_map_iff in H1 as [r [Er Hr]].
        apply filter_In in Hr as [_ Hr]. apply (f_equal r_lbl) in Er. cbn in Er.
        rewrite Er, N.eqb_refl in Hr. discriminate. }
      assert (H0' : In (newrow hz (mkR dlbl dp a0)) (flat_f [] (set_list sl (a ++ hoist_kids (names (a ++ b)) (oname x) (kids x) ++ b) f))).
      { rewrite E3. apply in_map. apply filter_In. split; auto. cbn [r_lbl].
        apply negb_true_iff. apply N.eqb_neq; auto. }
      assert (NL1 : NoDup (labels (flat_f [] (set_list sl (a ++ hoist_kids (names (a ++ b)) (oname x) (kids x) ++ b) f)))).
      { rewrite E3. unfold labels. rewrite map_map. cbn [newrow r_lbl].
        clear -NL. unfold labels in NL. induction (flat_f [] f) as [|r rs IH]; cbn; [constructor|].
        inversion NL; subst. destruct (negb (r_lbl r =? t)); cbn; auto.
        constructor; auto. intro Hin. apply H1. apply in_map_iff in Hin as [y [Ey Hy]].
        apply filter_In in Hy as [Hy _]. rewrite <- Ey. apply in_map; auto. }
      pose proof (NoDup_labels_inj _ _ _ NL1 H1 H0' eq_refl) as E. unfold newrow in E. cbn in E. congruence.
    - rewrite (dest_root _ _ _ _ Hd1 Hg1), (dest_root _ _ _ _ Hd Hg).
      unfold papply, hz, K. rewrite plookup_nil_zip. reflexivity. }
  destruct (get_set_flat _ _ _ _ _ Hg1) as [C [D [F1 F2]]].
  rewrite F2, flat_f_app, flat_f_cons, flat_f_nil, app_nil_r.
  assert (Ex' : flat_o dp1 (set_kids [] (set_name n' x)) = [mkR (lbl x) (dp1 ++ [n']) (oattrs x)])
    by (destruct x; reflexivity).
  rewrite Ex'.
  set (od := (pp ++ [oname x], papply hz dp ++ [n']) :: hz).
  (* the right-hand side, segment by segment *)
  assert (Hkeys : forall p, In p (map fst od) -> p = pp ++ [oname x] \/ In p (paths K)).
  { intros p [Hp0 | Hp]; [left; symmetry; exact Hp0 | right]. unfold hz in Hp. rewrite zip_paths_fst in Hp; auto. }
  assert (HA : map (newrow od) A = A).
  { apply map_newrow_outside. intros r Hr Hin. destruct (Hkeys _ Hin) as [Ep | Hp].
    - apply Hxr. rewrite paths_app. apply in_or_app; left. rewrite <- Ep. apply in_map; auto.
    - rewrite paths_app in NP1. eapply NoDup_app_disj; [exact NP1 | apply in_map; exact Hr |].
      rewrite paths_app. apply in_or_app; left; auto. }
  assert (HB : map (newrow od) B = B).
  { apply map_newrow_outside. intros r Hr Hin. destruct (Hkeys _ Hin) as [Ep | Hp].
    - apply Hxr. rewrite !paths_app. apply in_or_app; right. apply in_or_app; right. rewrite <- Ep. apply in_map; auto.
    - rewrite paths_app in NP1. apply NoDup_app_r in NP1. rewrite paths_app in NP1.
      eapply NoDup_app_disj; [exact NP1 | exact Hp | apply in_map; exact Hr]. }
  assert (HK : map (newrow od) K = K').
  { apply newrow_zip_gen; auto. intros r r' Hrr. unfold od. cbn [plookup].
    assert (Hne : path_eqb (r_path r) (pp ++ [oname x]) = false).
    { apply path_eqb_neq. intro Ep. apply Hxr. rewrite !paths_app. apply in_or_app; right. apply in_or_app; left.
      rewrite <- Ep. apply in_map. eapply in_combine_l; eauto. }
    rewrite Hne. apply plookup_unique.
    - unfold hz. rewrite zip_paths_fst by auto. rewrite !paths_app in NP1. apply NoDup_app_r in NP1.
      apply NoDup_app_l in NP1. exact NP1.
    - apply zip_paths_In; auto. }
  assert (HX : newrow od xr = mkR (lbl x) (papply hz dp ++ [n']) (oattrs x)).
  { unfold newrow, papply, od, xr. cbn [plookup r_path r_lbl r_attrs]. rewrite path_eqb_refl. reflexivity. }
  rewrite EF. rewrite map_app. cbn [map]. rewrite map_app. rewrite HA, HK, HB, HX.
  rewrite Permutation_insert. rewrite <- F1. rewrite E4. rewrite Edp.
  cbn [app]. apply Permutation_middle.
Qed.
