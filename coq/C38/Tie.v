(* Part 6: the executable property clauses of Clauses.v ([prop_codes], evaluated by Check.v on the
   implementation's output) hold on the specification's own output, for all well-formed graphs. *)
From Coq Require Import List Arith NArith Bool Lia Permutation.
Import ListNotations.
Require Import V.Lib.RunCases V.C38.Spec V.C38.Clauses V.C38.Proofs V.C38.Rows V.C38.Ops V.C38.Main V.C38.Paths
               V.C38.Theorems V.C40.Proofs V.C39.Proofs.
Open Scope N_scope.

Section Tie.
  Variables (g : graph) (o : op) (g' : graph).
  Hypothesis W : wf g.
  Hypothesis H : spec_apply g o = Some g'.

  Let U : uniq g := proj1 W.
  Let NE : NoDup (map e_lbl (g_edges g)) := proj1 (proj2 W).

  Lemma edge_kept e : In e (g_edges g) -> keep_edge o e = true ->
    find_edge (e_lbl e) (g_edges g') = Some (after_edge g o e).
  Proof.
    intros He K. rewrite (edges_after _ _ _ H). apply find_edge_map_kept; auto. apply after_edge_lbl.
  Qed.
  Lemma edge_removed e : In e (g_edges g) -> keep_edge o e = false ->
    find_edge (e_lbl e) (g_edges g') = None.
  Proof.
    intros He K. rewrite (edges_after _ _ _ H). apply find_edge_map_removed; auto. apply after_edge_lbl.
  Qed.

  Lemma tie_gone ro re :
    (forall l, ro l = removed_obj o l) -> (forall e, re e = removed_edge o e) ->
    c_gone (rows g) (g_edges g) (rows g') (g_edges g') ro re = true.
  Proof.
    intros Ho He. unfold c_gone. apply andb_true_iff; split; apply forallb_forall.
    - intros r Hr. rewrite Ho. destruct (removed_obj o (r_lbl r)) eqn:E; auto.
      rewrite (lookup_after_removed _ _ _ _ U H Hr); [reflexivity|]. unfold keep_row. rewrite E. reflexivity.
    - intros e Hin. rewrite He. destruct (removed_edge o e) eqn:E; auto.
      rewrite (edge_removed e Hin); [reflexivity|]. unfold keep_edge. rewrite E. reflexivity.
  Qed.

  Lemma tie_kept ro re :
    (forall l, ro l = removed_obj o l) -> (forall e, re e = removed_edge o e) ->
    c_kept (rows g) (g_edges g) (rows g') (g_edges g') ro re = true.
  Proof.
    intros Ho He. unfold c_kept. apply andb_true_iff; split; apply forallb_forall.
    - intros r Hr. rewrite Ho. destruct (removed_obj o (r_lbl r)) eqn:E; auto.
      rewrite (lookup_after_kept _ _ _ _ U H Hr); [reflexivity|]. unfold keep_row. rewrite E. reflexivity.
    - intros e Hin. rewrite He. destruct (removed_edge o e) eqn:E; auto.
      rewrite (edge_kept e Hin); [reflexivity|]. unfold keep_edge. rewrite E. reflexivity.
  Qed.

  Lemma tie_nonew : c_nonew (rows g) (g_edges g) (rows g') (g_edges g') = true.
  Proof.
    unfold c_nonew. apply andb_true_iff; split; apply forallb_forall.
    - intros r' Hr'. destruct (rows_after_origin _ _ _ _ U H Hr') as [r [Hr [_ ->]]].
      cbn [after_row r_lbl]. destruct U as [NL _]. rewrite (lookup_row_unique _ _ NL Hr). reflexivity.
    - intros e' He'. rewrite (edges_after _ _ _ H) in He'. apply in_map_iff in He' as [e [<- He]].
      apply filter_In in He as [He _]. rewrite after_edge_lbl. rewrite (find_edge_unique _ _ NE He). reflexivity.
  Qed.

  Lemma tie_attrs fo fe :
    (forall r, fo r = new_attrs o r) -> (forall e, fe e = e_attrs (after_edge g o e)) ->
    c_attrs (rows g) (g_edges g) (rows g') (g_edges g') fo fe = true.
  Proof.
    intros Ho He. unfold c_attrs. apply andb_true_iff; split; apply forallb_forall.
    - intros r Hr. destruct (keep_row o r) eqn:K.
      + rewrite (lookup_after_kept _ _ _ _ U H Hr K). cbn [after_row r_attrs]. rewrite Ho. apply attrs_eqb_eq; reflexivity.
      + rewrite (lookup_after_removed _ _ _ _ U H Hr K). reflexivity.
    - intros e Hin. destruct (keep_edge o e) eqn:K.
      + rewrite (edge_kept e Hin K). destruct (after_edge_ends g o e) as [-> [-> [-> [-> _]]]].
        rewrite !N.eqb_refl, !Bool.eqb_reflx, He. cbn. apply attrs_eqb_eq; reflexivity.
      + rewrite (edge_removed e Hin K). reflexivity.
  Qed.

  Lemma tie_paths_same moved :
    (forall r, In r (rows g) -> moved (r_lbl r) = false -> keep_row o r = true ->
               new_path g o (r_path r) = r_path r) ->
    c_paths_same (rows g) (rows g') moved = true.
  Proof.
    intro Hm. unfold c_paths_same. apply forallb_forall. intros r Hr.
    destruct (moved (r_lbl r)) eqn:M; auto. destruct (keep_row o r) eqn:K.
    - rewrite (lookup_after_kept _ _ _ _ U H Hr K). cbn [after_row r_path]. rewrite (Hm r Hr M K). apply path_eqb_refl.
    - rewrite (lookup_after_removed _ _ _ _ U H Hr K). reflexivity.
  Qed.

  Lemma tie_idx fi : (forall e, fi e = new_idx g o e) -> c_idx (g_edges g) (g_edges g') fi = true.
  Proof.
    intro Hf. unfold c_idx. apply forallb_forall. intros e Hin. destruct (keep_edge o e) eqn:K.
    - rewrite (edge_kept e Hin K). destruct (after_edge_ends g o e) as [_ [_ [_ [_ ->]]]]. rewrite Hf. apply N.eqb_refl.
    - rewrite (edge_removed e Hin K). reflexivity.
  Qed.

  (* nothing moves when the predicted object deltas are empty *)
  Lemma new_path_nil p : obj_deltas g o = [] -> new_path g o p = p.
  Proof. intro E. unfold new_path. rewrite E. reflexivity. Qed.
End Tie.

Lemma nmem_false l ls : nmem l ls = false -> ~ In l ls.
Proof.
  unfold nmem. intros E Hin. assert (existsb (N.eqb l) ls = true); [|congruence].
  apply existsb_exists. exists l. split; auto. apply N.eqb_refl.
Qed.

(* ------------------------------------------------------------------ delete edge / attributes *)

Theorem tie_delete_edge g l g' :
  wf g -> spec_apply g (OpDelEdge l) = Some g' -> prop_codes g (OpDelEdge l) (rows g') (g_edges g') = [].
Proof.
  intros W H. cbn [prop_codes]. pose proof H as H0. cbn [spec_apply] in H0. unfold spec_delete_edge in H0.
  destruct (find_edge l (g_edges g)) as [d|] eqn:Ed; [|discriminate].
  assert (Hae : forall e, after_edge g (OpDelEdge l) e = renumber d e) by (intro e; cbn [after_edge]; rewrite Ed; reflexivity).
  rewrite (tie_gone g _ g' W H) by reflexivity.
  rewrite (tie_kept g _ g' W H) by reflexivity.
  rewrite (tie_nonew g _ g' W H).
  rewrite (tie_attrs g _ g' W H);
    [| reflexivity | intro e; rewrite Hae; unfold renumber; destruct (_ && _); reflexivity].
  rewrite (tie_paths_same g _ g' W H) by (intros r _ _ _; apply new_path_nil; reflexivity).
  rewrite (tie_idx g _ g' W H) by (intro e; cbn [new_idx]; rewrite Ed; reflexivity).
  reflexivity.
Qed.

Lemma has_attr_del c a : has_attr c (del_attr c a) = false.
Proof. apply del_attr_gone. Qed.

Theorem tie_delete_obj_attr g t c g' :
  wf g -> spec_apply g (OpDelObjAttr t c) = Some g' -> prop_codes g (OpDelObjAttr t c) (rows g') (g_edges g') = [].
Proof.
  intros W H. cbn [prop_codes]. pose proof W as [U _].
  assert (C10 : match lookup_row t (rows g') with Some r => negb (has_attr c (r_attrs r)) | None => true end = true).
  { destruct (lookup_row t (rows g')) as [r'|] eqn:E; auto.
    apply lookup_row_In in E as [Hin El]. destruct (rows_after_origin _ _ _ _ U H Hin) as [r [Hr [_ ->]]].
    cbn [after_row r_attrs r_lbl new_attrs] in *. rewrite El, N.eqb_refl. rewrite has_attr_del. reflexivity. }
  rewrite C10.
  rewrite (tie_kept g _ g' W H) by reflexivity.
  rewrite (tie_nonew g _ g' W H).
  rewrite (tie_attrs g _ g' W H) by reflexivity.
  rewrite (tie_paths_same g _ g' W H) by (intros r _ _ _; apply new_path_nil; reflexivity).
  rewrite (tie_idx g _ g' W H) by reflexivity.
  reflexivity.
Qed.

Theorem tie_delete_edge_attr g l c g' :
  wf g -> spec_apply g (OpDelEdgeAttr l c) = Some g' -> prop_codes g (OpDelEdgeAttr l c) (rows g') (g_edges g') = [].
Proof.
  intros W H. cbn [prop_codes]. pose proof W as [U [NE _]].
  assert (C10 : match find_edge l (g_edges g') with Some e => negb (has_attr c (e_attrs e)) | None => true end = true).
  { destruct (find_edge l (g_edges g')) as [e'|] eqn:E; auto.
    apply find_edge_In in E as [Hin El]. rewrite (edges_after _ _ _ H) in Hin.
    apply in_map_iff in Hin as [e [<- He]]. cbn [after_edge] in *.
    destruct (e_lbl e =? l) eqn:El'; [cbn [set_eattrs e_attrs]; rewrite has_attr_del; reflexivity|].
    apply N.eqb_neq in El'. contradiction. }
  rewrite C10.
  rewrite (tie_kept g _ g' W H) by reflexivity.
  rewrite (tie_nonew g _ g' W H).
  rewrite (tie_attrs g _ g' W H);
    [| reflexivity | intro e; cbn [after_edge]; destruct (e_lbl e =? l); reflexivity].
  rewrite (tie_paths_same g _ g' W H) by (intros r _ _ _; apply new_path_nil; reflexivity).
  rewrite (tie_idx g _ g' W H) by (intro e; cbn [after_edge new_idx]; reflexivity).
  reflexivity.
Qed.
