(* C38: delete removes exactly the target, hoists its children, renumbers parallel edges. *)
From Coq Require Import List Arith NArith Bool Lia Permutation.
Import ListNotations.
Require Import V.Lib.RunCases V.C38.Spec V.C38.Proofs V.C38.Rows V.C38.Ops V.C38.Main V.C38.Paths.
Open Scope N_scope.

Lemma find_obj_target_row t f sl pp a x b :
  find_obj t f = Some (sl, pp, a, x, b) ->
  In (mkR t (pp ++ [oname x]) (oattrs x)) (flat_f [] f).
Proof.
  intro Hf. destruct (find_obj_rows _ _ _ _ _ _ _ Hf) as [A [B [E1 _]]].
  destruct (find_obj_sound _ _ _ _ _ _ _ Hf) as [_ <-].
  rewrite E1. apply in_or_app; right. apply in_or_app; left. apply In_flat_o_head.
Qed.

(* rows outside a located subtree keep their ID under any delta zip whose keys lie inside it *)
Lemma new_path_outside g o t sl pp a x b r :
  uniq g -> find_obj t (g_objs g) = Some (sl, pp, a, x, b) ->
  (forall p, In p (map fst (obj_deltas g o)) -> In p (paths (flat_o pp x))) ->
  In r (rows g) -> ~ In r (flat_o pp x) -> new_path g o (r_path r) = r_path r.
Proof.
  intros [NL NP] Hf Hk Hr Hn. unfold new_path. apply papply_outside. intro Hin.
  destruct (find_obj_rows _ _ _ _ _ _ _ Hf) as [A [B [E1 _]]]. unfold rows in *.
  rewrite E1 in NP, Hr. eapply outside_path; eauto.
Qed.

Lemma delete_keys g t sl pp a x b :
  find_obj t (g_objs g) = Some (sl, pp, a, x, b) ->
  forall p, In p (map fst (obj_deltas g (OpDelObj t))) -> In p (paths (flat_o pp x)).
Proof.
  intros Hf p Hp. cbn [obj_deltas] in Hp. rewrite Hf in Hp. rewrite zip_paths_fst in Hp.
  - rewrite flat_o_unfold. right. exact Hp.
  - apply Forall2_length' with (R := same_la). apply flat_f_same_la_renamed, hoist_kids_renamed.
Qed.

(* ------------------------------------------------------------------ delete object *)

(* the target is gone, and exactly the connections attached to it are gone *)
Theorem spec_delete_removes_target_and_attached_edges g t g' :
  uniq g -> spec_delete_object g t = Some g' ->
  lookup_row t (rows g') = None
  /\ g_edges g' = filter (fun e => negb (touches t e)) (g_edges g).
Proof.
  intros U H. split.
  - unfold spec_delete_object in H.
    destruct (find_obj t (g_objs g)) as [[[[[sl pp] a] x] b]|] eqn:Hf; [|discriminate].
    pose proof (find_obj_target_row _ _ _ _ _ _ _ Hf) as Hr.
    apply (lookup_after_removed g (OpDelObj t) g' _ U) in Hr; auto.
    + unfold spec_apply, spec_delete_object. rewrite Hf. exact H.
    + unfold keep_row. cbn. rewrite N.eqb_refl. reflexivity.
  - rewrite (edges_after g (OpDelObj t) g' H). cbn [after_edge]. rewrite map_id. reflexivity.
Qed.

(* every object outside the target's subtree is literally unchanged (ID and attributes), every
   remaining connection keeps endpoints, arrowheads, index and attributes, and nothing appears *)
Theorem spec_delete_frames_others g t g' sl pp a x b :
  uniq g -> spec_delete_object g t = Some g' -> find_obj t (g_objs g) = Some (sl, pp, a, x, b) ->
  (forall r, In r (rows g) -> ~ In r (flat_o pp x) -> lookup_row (r_lbl r) (rows g') = Some r)
  /\ (forall e, In e (g_edges g') <-> In e (g_edges g) /\ touches t e = false)
  /\ (forall r', In r' (rows g') -> exists r, In r (rows g) /\ r_lbl r <> t /\ r_lbl r' = r_lbl r /\ r_attrs r' = r_attrs r).
Proof.
  intros U H Hf. assert (H' : spec_apply g (OpDelObj t) = Some g') by exact H.
  assert (HE : g_edges g' = filter (fun e => negb (touches t e)) (g_edges g)).
  { rewrite (edges_after _ _ _ H'). cbn [after_edge]. rewrite map_id. reflexivity. }
  split; [|split].
  - intros r Hr Hn.
    assert (K : keep_row (OpDelObj t) r = true).
    { unfold keep_row. cbn. apply negb_true_iff. apply N.eqb_neq. intro E. apply Hn.
      destruct U as [NL _]. pose proof (find_obj_target_row _ _ _ _ _ _ _ Hf) as Ht.
      assert (r = mkR t (pp ++ [oname x]) (oattrs x)) by (eapply NoDup_labels_inj; eauto).
      subst r. destruct (find_obj_sound _ _ _ _ _ _ _ Hf) as [_ <-]. apply In_flat_o_head. }
    rewrite (lookup_after_kept _ _ _ _ U H' Hr K). f_equal.
    unfold after_row. cbn [new_attrs].
    rewrite (new_path_outside g (OpDelObj t) t sl pp a x b r U Hf (delete_keys _ _ _ _ _ _ _ Hf) Hr Hn).
    apply orow_eta.
  - intro e. rewrite HE, filter_In, negb_true_iff. tauto.
  - intros r' Hr'. destruct (rows_after_origin _ _ _ _ U H' Hr') as [r [Hr [K ->]]].
    exists r. repeat split; auto. unfold keep_row in K. cbn in K. apply negb_true_iff in K.
    apply N.eqb_neq; auto.
Qed.

(* the children keep identity and attributes, end up directly below the former parent with their own
   subtrees intact, and are renamed only when their name is taken there - by a sibling of the deleted
   object or by an earlier hoisted child *)
Theorem spec_delete_hoists_children g t g' sl pp a x b :
  uniq g -> spec_delete_object g t = Some g' -> find_obj t (g_objs g) = Some (sl, pp, a, x, b) ->
  forall i k, nth_error (kids x) i = Some k ->
  exists n',
    (forall r, In r (flat_o (pp ++ [oname x]) k) ->
               lookup_row (r_lbl r) (rows g')
               = Some (mkR (r_lbl r) (pp ++ n' :: skipn (S (length (pp ++ [oname x]))) (r_path r)) (r_attrs r)))
    /\ (n' = oname k
        \/ In (oname k) (names (a ++ b))
        \/ In (oname k) (names (firstn i (hoist_kids (names (a ++ b)) (oname x) (kids x))))).
Proof.
  intros U H Hf i k Hk. assert (H' : spec_apply g (OpDelObj t) = Some g') by exact H.
  set (ks' := hoist_kids (names (a ++ b)) (oname x) (kids x)).
  pose proof (hoist_kids_renamed (names (a ++ b)) (oname x) (kids x)) as F. fold ks' in F.
  assert (Hk' : exists k', nth_error ks' i = Some k').
  { destruct (nth_error ks' i) eqn:E; eauto. exfalso. apply nth_error_None in E.
    rewrite <- (Forall2_length' _ _ _ F) in E. apply nth_error_None in E. congruence. }
  destruct Hk' as [k' Hk'].
  assert (Hc : In (k, k') (combine (kids x) ks')).
  { assert (G : forall (l l' : forest) j, nth_error l j = Some k -> nth_error l' j = Some k' -> In (k, k') (combine l l')).
    { induction l as [|y l IH]; intros [|y' l'] [|j] A0 B0; cbn in *; try discriminate.
      - inversion A0; inversion B0; subst. left; reflexivity.
      - right. eapply IH; eauto. }
    eapply G; eauto. }
  assert (Hren : renamed k k').
  { clear -F Hc. induction F; cbn in Hc; [contradiction|]. destruct Hc as [E | Hc]; auto. inversion E; subst; auto. }
  destruct Hren as [n' ->]. exists n'. split.
  - intros r Hr.
    assert (Hrows : In r (rows g)).
    { destruct (find_obj_rows _ _ _ _ _ _ _ Hf) as [A [B [E1 _]]]. unfold rows. rewrite E1.
      apply in_or_app; right. apply in_or_app; left. rewrite flat_o_unfold. right.
      eapply In_flat_f; [eapply nth_error_In; eauto | exact Hr]. }
    assert (K : keep_row (OpDelObj t) r = true).
    { unfold keep_row. cbn. apply negb_true_iff. apply N.eqb_neq. intro E.
      destruct U as [NL NP]. pose proof (find_obj_target_row _ _ _ _ _ _ _ Hf) as Ht.
      assert (r = mkR t (pp ++ [oname x]) (oattrs x)) by (eapply NoDup_labels_inj; eauto). subst r.
      (* the target's own row is not below itself: its path would be a proper extension of itself *)
      destruct (flat_o_prefix _ _ _ Hr) as [rest [Ep Hne]]. cbn in Ep.
      rewrite <- (app_nil_r (pp ++ [oname x])) in Ep at 1. apply app_inv_head in Ep. congruence. }
    rewrite (lookup_after_kept _ _ _ _ U H' Hrows K). f_equal. unfold after_row. cbn [new_attrs]. f_equal.
    unfold new_path. cbn [obj_deltas]. rewrite Hf. fold ks'.
    apply (zip_lookup_child pp (pp ++ [oname x]) (kids x) ks' k n' r); auto.
    destruct U as [_ NP]. destruct (find_obj_rows _ _ _ _ _ _ _ Hf) as [A [B [E1 _]]]. unfold rows in NP.
    rewrite E1, flat_o_unfold in NP. rewrite paths_app in NP. apply NoDup_app_r in NP.
    rewrite paths_app in NP. apply NoDup_app_l in NP. cbn [paths map] in NP. inversion NP; subst. assumption.
  - destruct (hoist_kids_conflict _ _ _ _ _ _ Hk Hk') as [E | [E | E]]; auto.
    left. destruct k; cbn in *. congruence.
Qed.

(* ------------------------------------------------------------------ delete edge *)

(* exactly that connection disappears; later parallel connections move down by one index, every
   other connection and every object is untouched *)
Theorem spec_delete_edge_renumbers g l g' d :
  NoDup (map e_lbl (g_edges g)) -> spec_delete_edge g l = Some g' -> find_edge l (g_edges g) = Some d ->
  rows g' = rows g
  /\ find_edge l (g_edges g') = None
  /\ forall e, In e (g_edges g) -> e_lbl e <> l ->
       find_edge (e_lbl e) (g_edges g')
       = Some (if parallel d e && (e_idx d <? e_idx e) then set_idx (e_idx e - 1) e else e).
Proof.
  intros ND H Hd. unfold spec_delete_edge in H. rewrite Hd in H. inversion H; subst g'; clear H.
  cbn [g_edges rows g_objs]. repeat split.
  - apply find_edge_None. rewrite map_map. intro Hin. apply in_map_iff in Hin as [e [E He]].
    apply filter_In in He as [_ He]. apply negb_true_iff, N.eqb_neq in He.
    unfold renumber in E. destruct (_ && _); cbn in E; congruence.
  - intros e He Hl. fold (renumber d e).
    assert (Hlbl : forall e, e_lbl (renumber d e) = e_lbl e).
    { intro e0. unfold renumber. destruct (_ && _); reflexivity. }
    rewrite <- (Hlbl e). apply find_edge_unique.
    + rewrite map_map. rewrite (map_ext _ e_lbl) by auto.
      clear -ND. induction (g_edges g) as [|y es IH]; cbn; [constructor|]. cbn in ND. inversion ND; subst.
      destruct (negb (e_lbl y =? l)); cbn; auto. constructor; auto. intro Hin. apply H1.
      apply in_map_iff in Hin as [z [Ez Hz]]. apply filter_In in Hz as [Hz _]. rewrite <- Ez. apply in_map; auto.
    + apply in_map. apply filter_In. split; auto. apply negb_true_iff. apply N.eqb_neq; auto.
Qed.

(* renumbering never makes two parallel connections share an index *)
Theorem spec_delete_edge_keeps_indices_distinct g l g' :
  (forall e1 e2, In e1 (g_edges g) -> In e2 (g_edges g) -> parallel e1 e2 = true -> e_idx e1 = e_idx e2 -> e1 = e2) ->
  spec_delete_edge g l = Some g' ->
  forall e1 e2, In e1 (g_edges g') -> In e2 (g_edges g') -> parallel e1 e2 = true -> e_idx e1 = e_idx e2 -> e1 = e2.
Proof.
  intros HP H. unfold spec_delete_edge in H. destruct (find_edge l (g_edges g)) as [d|] eqn:Hd; [|discriminate].
  inversion H; subst g'; clear H. cbn [g_edges]. intros e1 e2 I1 I2 P E.
  apply in_map_iff in I1 as [a1 [<- A1]]. apply in_map_iff in I2 as [a2 [<- A2]].
  apply filter_In in A1 as [A1 L1]. apply filter_In in A2 as [A2 L2].
  apply negb_true_iff, N.eqb_neq in L1. apply negb_true_iff, N.eqb_neq in L2.
  apply find_edge_In in Hd as [Id Ld].
  assert (Rs : forall e, e_src (renumber d e) = e_src e /\ e_dst (renumber d e) = e_dst e
                         /\ e_sa (renumber d e) = e_sa e /\ e_da (renumber d e) = e_da e).
  { intro e. unfold renumber. destruct (_ && _); cbn; auto. }
  assert (P12 : parallel (renumber d a1) (renumber d a2) = parallel a1 a2).
  { unfold parallel. destruct (Rs a1) as [-> [-> [-> ->]]]. destruct (Rs a2) as [-> [-> [-> ->]]]. reflexivity. }
  rewrite P12 in P.
  assert (a1 = a2); [|subst; reflexivity]. apply HP; auto.
  (* parallel to each other: both parallel to d, or neither *)
  assert (Pd : parallel d a1 = parallel d a2).
  { unfold parallel in *. apply andb_true_iff in P as [P Pda]. apply andb_true_iff in P as [P Psa].
    apply andb_true_iff in P as [Ps Pdd]. apply N.eqb_eq in Ps, Pdd.
    apply Bool.eqb_prop in Psa, Pda. rewrite Ps, Pdd, Psa, Pda. reflexivity. }
  unfold renumber in E. rewrite <- Pd in E.
  destruct (parallel d a1) eqn:Pa; cbn [andb] in E.
  - (* both parallel to d: indices differ from d's, decrement is injective above it *)
    assert (N1 : e_idx a1 <> e_idx d) by (intro X; apply L1; rewrite (HP a1 d A1 Id); auto;
       unfold parallel in *; rewrite (N.eqb_sym (e_src a1)), (N.eqb_sym (e_dst a1));
       destruct (e_sa d), (e_sa a1), (e_da d), (e_da a1); cbn in *; auto).
    assert (N2 : e_idx a2 <> e_idx d) by (intro X; apply L2; rewrite (HP a2 d A2 Id); auto;
       rewrite Pd in Pa; unfold parallel in *; rewrite (N.eqb_sym (e_src a2)), (N.eqb_sym (e_dst a2));
       destruct (e_sa d), (e_sa a2), (e_da d), (e_da a2); cbn in *; auto).
    destruct (e_idx d <? e_idx a1) eqn:C1; destruct (e_idx d <? e_idx a2) eqn:C2; cbn in E;
      try apply N.ltb_lt in C1; try apply N.ltb_lt in C2; try apply N.ltb_ge in C1; try apply N.ltb_ge in C2; lia.
  - exact E.
Qed.

(* ------------------------------------------------------------------ delete attribute *)

Lemma del_attr_gone c a : existsb (fun kv => fst kv =? c) (del_attr c a) = false.
Proof.
  induction a as [|[k v] a IH]; cbn; auto. destruct (k =? c) eqn:E; cbn; auto. rewrite E. exact IH.
Qed.
Lemma del_attr_others c a kv : fst kv <> c -> (In kv (del_attr c a) <-> In kv a).
Proof.
  intro H. unfold del_attr. rewrite filter_In. split; [tauto|]. intro Hin. split; auto.
  apply negb_true_iff. apply N.eqb_neq; auto.
Qed.

(* only that attribute of that object is reset; IDs, other attributes, other objects and all
   connections are untouched *)
Theorem spec_delete_attr_only g t c :
  rows (spec_delete_obj_attr g t c)
  = map (fun r => if r_lbl r =? t then mkR (r_lbl r) (r_path r) (del_attr c (r_attrs r)) else r) (rows g)
  /\ g_edges (spec_delete_obj_attr g t c) = g_edges g
  /\ (forall a, existsb (fun kv => fst kv =? c) (del_attr c a) = false)
  /\ (forall a kv, fst kv <> c -> (In kv (del_attr c a) <-> In kv a)).
Proof.
  repeat split.
  - unfold rows. cbn [spec_delete_obj_attr g_objs]. rewrite flat_f_map_obj. apply map_ext.
    intro r. destruct (r_lbl r =? t); [reflexivity | apply orow_eta].
  - apply del_attr_gone.
  - apply del_attr_others; auto.
  - apply del_attr_others; auto.
Qed.

Theorem spec_delete_edge_attr_only g l c :
  rows (spec_delete_edge_attr g l c) = rows g
  /\ g_edges (spec_delete_edge_attr g l c)
     = map (fun e => if e_lbl e =? l then set_eattrs (del_attr c (e_attrs e)) e else e) (g_edges g).
Proof. split; reflexivity. Qed.
