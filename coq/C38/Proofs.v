(* Lemmas about the specification (Spec.v), shared by C38 / C39 / C40.
   Part 1: equality tests, flattening, locations, lookups. *)
From Coq Require Import List Arith NArith Bool Lia Permutation.
Import ListNotations.
Require Import V.Lib.RunCases V.C38.Spec.
Open Scope N_scope.

(* ------------------------------------------------------------------ equality tests *)

Lemma str_eqb_eq a b : str_eqb a b = true <-> a = b.
Proof. apply list_eqb_eq. intros; apply N.eqb_eq. Qed.
Lemma str_eqb_refl a : str_eqb a a = true.
Proof. apply str_eqb_eq; reflexivity. Qed.
Lemma str_eqb_neq a b : str_eqb a b = false <-> a <> b.
Proof.
  split; intro H.
  - intro E. apply str_eqb_eq in E. congruence.
  - destruct (str_eqb a b) eqn:E; auto. apply str_eqb_eq in E. contradiction.
Qed.
Lemma path_eqb_eq a b : path_eqb a b = true <-> a = b.
Proof. apply list_eqb_eq. apply str_eqb_eq. Qed.
Lemma path_eqb_refl a : path_eqb a a = true.
Proof. apply path_eqb_eq; reflexivity. Qed.
Lemma path_eqb_neq a b : path_eqb a b = false <-> a <> b.
Proof.
  split; intro H.
  - intro E. apply path_eqb_eq in E. congruence.
  - destruct (path_eqb a b) eqn:E; auto. apply path_eqb_eq in E. contradiction.
Qed.
Lemma attr_eqb_eq a b : attr_eqb a b = true <-> a = b.
Proof.
  unfold attr_eqb. destruct a as [k v], b as [k' v']; cbn [fst snd].
  rewrite andb_true_iff, N.eqb_eq, str_eqb_eq. split; [intros [-> ->] | intros [= -> ->]]; auto.
Qed.
Lemma attrs_eqb_eq a b : attrs_eqb a b = true <-> a = b.
Proof. apply list_eqb_eq. apply attr_eqb_eq. Qed.

Lemma id_eqb_eq a b : id_eqb a b = true <-> a = b.
Proof.
  destruct a as [p | s d sa da i], b as [q | s' d' sa' da' i']; cbn [id_eqb].
  - rewrite path_eqb_eq. split; [intros -> | intros [= ->]]; auto.
  - split; [discriminate | discriminate].
  - split; [discriminate | discriminate].
  - rewrite !andb_true_iff, !path_eqb_eq, !Bool.eqb_true_iff, N.eqb_eq.
    split; [intros [[[[-> ->] ->] ->] ->] | intros [= -> -> -> -> ->]]; auto.
Qed.
Lemma id_eqb_refl a : id_eqb a a = true.
Proof. apply id_eqb_eq; reflexivity. Qed.

Lemma smem_In s l : smem s l = true <-> In s l.
Proof.
  unfold smem. rewrite existsb_exists. split.
  - intros [x [Hx E]]. apply str_eqb_eq in E. subst; auto.
  - intro H. exists s. split; auto. apply str_eqb_refl.
Qed.
Lemma smem_false s l : smem s l = false <-> ~ In s l.
Proof.
  split; intro H.
  - intro I. apply smem_In in I. congruence.
  - destruct (smem s l) eqn:E; auto. apply smem_In in E. contradiction.
Qed.

(* ------------------------------------------------------------------ induction on objects *)

Section ObjInd.
  Variable P : obj -> Prop.
  Hypothesis H : forall l n a ks, Forall P ks -> P (Obj l n a ks).
  Fixpoint obj_ind' (o : obj) : P o :=
    match o with
    | Obj l n a ks =>
        H l n a ks ((fix go (ks : list obj) : Forall P ks :=
                       match ks with
                       | [] => Forall_nil P
                       | k :: r => Forall_cons k (obj_ind' k) (go r)
                       end) ks)
    end.
End ObjInd.

(* ------------------------------------------------------------------ flattening *)

Lemma flat_f_nil p : flat_f p [] = [].
Proof. reflexivity. Qed.
Lemma flat_f_cons p o f : flat_f p (o :: f) = flat_o p o ++ flat_f p f.
Proof. reflexivity. Qed.
Lemma flat_f_app p a b : flat_f p (a ++ b) = flat_f p a ++ flat_f p b.
Proof. unfold flat_f. apply flat_map_app. Qed.
Lemma flat_o_eq p l n a ks : flat_o p (Obj l n a ks) = mkR l (p ++ [n]) a :: flat_f (p ++ [n]) ks.
Proof. reflexivity. Qed.
Lemma flat_o_unfold p o : flat_o p o = mkR (lbl o) (p ++ [oname o]) (oattrs o) :: flat_f (p ++ [oname o]) (kids o).
Proof. destruct o; reflexivity. Qed.

(* every row below prefix p has a path that extends p properly *)
Lemma flat_o_prefix : forall o p r, In r (flat_o p o) -> exists rest, r_path r = p ++ rest /\ rest <> [].
Proof.
  induction o as [l n a ks IH] using obj_ind'. intros p r Hin.
  rewrite flat_o_eq in Hin. destruct Hin as [<- | Hin].
  - exists [n]. split; auto. discriminate.
  - unfold flat_f in Hin. apply in_flat_map in Hin as [k [Hk Hr]].
    rewrite Forall_forall in IH. destruct (IH k Hk _ _ Hr) as [rest [E _]].
    exists (n :: rest). split; [| discriminate]. rewrite E, <- app_assoc. reflexivity.
Qed.
Lemma flat_f_prefix f p r : In r (flat_f p f) -> exists rest, r_path r = p ++ rest /\ rest <> [].
Proof.
  unfold flat_f. intro H. apply in_flat_map in H as [k [_ Hr]]. eapply flat_o_prefix; eauto.
Qed.

(* moving a subtree from below p to below q rewrites exactly the prefix of every path *)
Definition reprefix (p q : path) (r : orow) : orow :=
  mkR (r_lbl r) (q ++ skipn (length p) (r_path r)) (r_attrs r).

Lemma skipn_app_exact {A} (a b : list A) : skipn (length a) (a ++ b) = b.
Proof. induction a; simpl; auto. Qed.

Lemma flat_o_reprefix : forall o p q, flat_o q o = map (reprefix p q) (flat_o p o).
Proof.
  induction o as [l n a ks IH] using obj_ind'. intros p q.
  rewrite !flat_o_eq. cbn [map]. f_equal.
  - unfold reprefix; cbn [r_lbl r_path r_attrs]. rewrite skipn_app_exact. reflexivity.
  - unfold flat_f. rewrite Forall_forall in IH.
    induction ks as [|k r IHr]; [reflexivity|].
    cbn [flat_map]. rewrite map_app. f_equal.
    + rewrite (IH k (or_introl eq_refl) (p ++ [n]) (q ++ [n])).
      apply map_ext_in. intros x Hx. destruct (flat_o_prefix _ _ _ Hx) as [rest [E _]].
      unfold reprefix. rewrite E. f_equal.
      rewrite skipn_app_exact. rewrite <- (app_assoc p [n] rest). rewrite skipn_app_exact.
      rewrite <- app_assoc. reflexivity.
    + apply IHr. intros x Hx. apply IH. right; exact Hx.
Qed.

Lemma flat_f_reprefix f p q : flat_f q f = map (reprefix p q) (flat_f p f).
Proof.
  unfold flat_f. induction f as [|o r IH]; [reflexivity|].
  cbn [flat_map]. rewrite map_app, IH. f_equal. apply flat_o_reprefix.
Qed.

(* renaming the root of a subtree: same identities and attributes, row by row *)
Definition same_la (r r' : orow) : Prop := r_lbl r' = r_lbl r /\ r_attrs r' = r_attrs r.

Lemma flat_o_set_name_kids o n p :
  flat_o p (set_name n o) = mkR (lbl o) (p ++ [n]) (oattrs o) :: flat_f (p ++ [n]) (kids o).
Proof. destruct o; reflexivity. Qed.

Lemma Forall2_map_r {A B} (R : A -> B -> Prop) (f : A -> B) l :
  (forall x, In x l -> R x (f x)) -> Forall2 R l (map f l).
Proof. induction l; intro H; constructor; [apply H; left; auto | apply IHl; intros; apply H; right; auto]. Qed.

Lemma flat_f_same_la f p q : Forall2 same_la (flat_f p f) (flat_f q f).
Proof.
  rewrite (flat_f_reprefix f p q). apply Forall2_map_r. intros x _. split; reflexivity.
Qed.

Lemma flat_o_length o p q : length (flat_o p o) = length (flat_o q o).
Proof. rewrite (flat_o_reprefix o p q), map_length. reflexivity. Qed.

(* ------------------------------------------------------------------ locations *)

Lemma nth_error_split_fs {A} (l : list A) i x :
  nth_error l i = Some x -> l = firstn i l ++ x :: skipn (S i) l.
Proof.
  revert l; induction i; intros [|y r] H; simpl in *; try discriminate.
  - inversion H; reflexivity.
  - f_equal. apply IHi; auto.
Qed.

Lemma upd_nth_split {A} (g : A -> A) (l : list A) i x :
  nth_error l i = Some x -> upd_nth i g l = firstn i l ++ g x :: skipn (S i) l.
Proof.
  revert l; induction i; intros [|y r] H; simpl in *; try discriminate.
  - inversion H; reflexivity.
  - f_equal. apply IHi; auto.
Qed.

(* the rows of the forest decompose around any location, and replacing the child list there replaces
   exactly that segment *)
Lemma get_set_flat : forall is pre f pp s,
  get_list is pre f = Some (pp, s) ->
  exists A B, flat_f pre f = A ++ flat_f pp s ++ B
              /\ forall s', flat_f pre (set_list is s' f) = A ++ flat_f pp s' ++ B.
Proof.
  induction is as [|i r IH]; intros pre f pp s H.
  - cbn in H. inversion H; subst. exists [], []. split.
    + rewrite app_nil_r. reflexivity.
    + intros s'. cbn. rewrite app_nil_r. reflexivity.
  - cbn [get_list] in H. destruct (nth_error f i) as [[l n a ks]|] eqn:E; [|discriminate].
    destruct (IH _ _ _ _ H) as [A [B [E1 E2]]].
    pose proof (nth_error_split_fs _ _ _ E) as Ef.
    exists (flat_f pre (firstn i f) ++ mkR l (pre ++ [n]) a :: A), (B ++ flat_f pre (skipn (S i) f)).
    split.
    + rewrite Ef at 1. rewrite flat_f_app, flat_f_cons, flat_o_eq, E1.
      rewrite <- !app_assoc. cbn [app]. rewrite <- !app_assoc. reflexivity.
    + intros s'. cbn [set_list]. rewrite (upd_nth_split _ _ _ _ E).
      rewrite flat_f_app, flat_f_cons, flat_o_eq, E2.
      rewrite <- !app_assoc. cbn [app]. rewrite <- !app_assoc. reflexivity.
Qed.

(* reading a location back after writing it *)
Lemma get_set_same : forall is pre f pp s s',
  get_list is pre f = Some (pp, s) -> get_list is pre (set_list is s' f) = Some (pp, s').
Proof.
  induction is as [|i r IH]; intros pre f pp s s' H.
  - cbn in *. inversion H; reflexivity.
  - cbn [get_list set_list] in *. destruct (nth_error f i) as [[l n a ks]|] eqn:E; [|discriminate].
    rewrite (upd_nth_split _ _ _ _ E).
    assert (L : length (firstn i f) = i).
    { apply firstn_length_le. assert (i < length f)%nat by (apply nth_error_Some; congruence). lia. }
    rewrite nth_error_app2 by lia. rewrite L, Nat.sub_diag. cbn. eapply IH; eauto.
Qed.

(* top_index / locate are sound *)
Lemma top_index_sound t f i : top_index t f = Some i -> exists x, nth_error f i = Some x /\ lbl x = t.
Proof.
  revert i; induction f as [|o r IH]; intros i H; cbn in H; [discriminate|].
  destruct (lbl o =? t) eqn:E.
  - inversion H; subst. exists o. split; auto. apply N.eqb_eq; auto.
  - destruct (top_index t r) eqn:E2; [|discriminate]. inversion H; subst.
    destruct (IH _ eq_refl) as [x [Hx Hl]]. exists x. split; auto.
Qed.

Definition located (t : N) (pre : path) (f : forest) (sl : list nat) (i : nat) : Prop :=
  exists pp sibs x, get_list sl pre f = Some (pp, sibs) /\ nth_error sibs i = Some x /\ lbl x = t.

Lemma locate_gen_sound t (rec : obj -> option (list nat * nat)) :
  forall f j0 pre sl i,
    (forall o, In o f -> forall sl i, rec o = Some (sl, i) ->
               located t (pre ++ [oname o]) (kids o) sl i) ->
    locate_gen rec j0 f = Some (sl, i) ->
    exists j sl', sl = (j0 + j)%nat :: sl' /\ exists o, nth_error f j = Some o
                  /\ located t (pre ++ [oname o]) (kids o) sl' i.
Proof.
  induction f as [|o r IH]; intros j0 pre sl i Hrec H; cbn in H; [discriminate|].
  destruct (rec o) as [[sl' i']|] eqn:E.
  - inversion H; subst. exists O, sl'. split; [f_equal; lia|]. exists o. split; auto.
    apply Hrec; auto. left; auto.
  - destruct (IH (S j0) pre sl i) as [j [sl' [E1 [o' [E2 E3]]]]]; auto.
    { intros o' Ho'. apply Hrec. right; auto. }
    exists (S j), sl'. split; [rewrite E1; f_equal; lia|]. exists o'. split; auto.
Qed.

Lemma locate_o_sound t : forall o pre sl i,
  locate_o t o = Some (sl, i) -> located t (pre ++ [oname o]) (kids o) sl i.
Proof.
  induction o as [l n a ks IH] using obj_ind'. intros pre sl i H. cbn [locate_o] in H.
  cbn [oname kids].
  destruct (top_index t ks) as [i0|] eqn:E.
  - inversion H; subst. destruct (top_index_sound _ _ _ E) as [x [Hx Hl]].
    exists (pre ++ [n]), ks, x. cbn. auto.
  - rewrite Forall_forall in IH.
    assert (Hrec : forall o, In o ks -> forall sl i, locate_o t o = Some (sl, i) ->
                   located t ((pre ++ [n]) ++ [oname o]) (kids o) sl i)
      by (intros o Ho sl0 i0 H0; apply IH; auto).
    destruct (locate_gen_sound t (locate_o t) ks O (pre ++ [n]) sl i Hrec H) as [j [sl' [E1 [o [E2 E3]]]]].
    subst sl. cbn in *. destruct E3 as [pp [sibs [x [G [Nx Lx]]]]].
    exists pp, sibs, x. cbn [get_list]. rewrite E2. destruct o; cbn in *. auto.
Qed.

Lemma locate_sound t f sl i : locate t f = Some (sl, i) -> located t [] f sl i.
Proof.
  unfold locate. intro H. destruct (top_index t f) as [i0|] eqn:E.
  - inversion H; subst. destruct (top_index_sound _ _ _ E) as [x [Hx Hl]].
    exists [], f, x. cbn. auto.
  - assert (Hrec : forall o, In o f -> forall sl i, locate_o t o = Some (sl, i) ->
                   located t ([] ++ [oname o]) (kids o) sl i)
      by (intros o Ho sl0 i0 H0; apply locate_o_sound; auto).
    destruct (locate_gen_sound t (locate_o t) f O [] sl i Hrec H) as [j [sl' [E1 [o [E2 E3]]]]].
    subst sl. cbn in *. destruct E3 as [pp [sibs [x [G [Nx Lx]]]]].
    exists pp, sibs, x. cbn [get_list]. rewrite E2. destruct o; cbn in *. auto.
Qed.

Lemma find_obj_sound t f sl pp a x b :
  find_obj t f = Some (sl, pp, a, x, b) ->
  get_list sl [] f = Some (pp, a ++ x :: b) /\ lbl x = t.
Proof.
  unfold find_obj. destruct (locate t f) as [[sl0 i]|] eqn:E; [|discriminate].
  destruct (locate_sound _ _ _ _ E) as [pp0 [sibs [x0 [G [Nx Lx]]]]].
  rewrite G, Nx. intro H. inversion H; subst.
  split; auto. rewrite G. do 2 f_equal. exact (nth_error_split_fs _ _ _ Nx).
Qed.

(* the rows around the located object *)
Lemma find_obj_rows t f sl pp a x b :
  find_obj t f = Some (sl, pp, a, x, b) ->
  exists A B, flat_f [] f = A ++ flat_o pp x ++ B
              /\ forall s', flat_f [] (set_list sl (a ++ s' ++ b) f) = A ++ flat_f pp s' ++ B.
Proof.
  intro H. destruct (find_obj_sound _ _ _ _ _ _ _ H) as [G _].
  destruct (get_set_flat _ _ _ _ _ G) as [A [B [E1 E2]]].
  exists (A ++ flat_f pp a), (flat_f pp b ++ B). split.
  - rewrite E1, flat_f_app, flat_f_cons. rewrite <- !app_assoc. reflexivity.
  - intros s'. rewrite E2, !flat_f_app. rewrite <- !app_assoc. reflexivity.
Qed.

(* ------------------------------------------------------------------ lookups under unique identities *)

Definition labels (rs : list orow) : list N := map r_lbl rs.

Lemma lookup_row_In l rs r : lookup_row l rs = Some r -> In r rs /\ r_lbl r = l.
Proof.
  induction rs as [|x rs IH]; cbn; [discriminate|].
  destruct (r_lbl x =? l) eqn:E.
  - intros [= ->]. split; auto. apply N.eqb_eq; auto.
  - intro H. destruct (IH H). auto.
Qed.

Lemma lookup_row_None l rs : lookup_row l rs = None <-> ~ In l (labels rs).
Proof.
  induction rs as [|x rs IH]; cbn; [tauto|].
  destruct (r_lbl x =? l) eqn:E.
  - apply N.eqb_eq in E. split; [discriminate | intro H; exfalso; apply H; auto].
  - apply N.eqb_neq in E. rewrite IH. tauto.
Qed.

Lemma lookup_row_unique rs r : NoDup (labels rs) -> In r rs -> lookup_row (r_lbl r) rs = Some r.
Proof.
  induction rs as [|x rs IH]; intros ND Hin; [contradiction|].
  cbn in ND. inversion ND as [|? ? Hx ND']; subst. cbn [lookup_row].
  destruct Hin as [-> | Hin].
  - rewrite N.eqb_refl. reflexivity.
  - destruct (r_lbl x =? r_lbl r) eqn:E.
    + apply N.eqb_eq in E. exfalso. apply Hx. rewrite E. apply in_map; auto.
    + apply IH; auto.
Qed.

Lemma lookup_row_perm l rs rs' :
  NoDup (labels rs) -> Permutation rs rs' -> lookup_row l rs' = lookup_row l rs.
Proof.
  intros ND P.
  assert (ND' : NoDup (labels rs')) by (eapply Permutation_NoDup; [apply Permutation_map; exact P | exact ND]).
  destruct (lookup_row l rs) as [r|] eqn:E.
  - apply lookup_row_In in E as [Hin <-]. apply lookup_row_unique; auto.
    eapply Permutation_in; eauto.
  - apply lookup_row_None. apply lookup_row_None in E. intro H. apply E.
    eapply Permutation_in; [apply Permutation_sym, Permutation_map; exact P | exact H].
Qed.

Lemma find_edge_In l es e : find_edge l es = Some e -> In e es /\ e_lbl e = l.
Proof.
  induction es as [|x es IH]; cbn; [discriminate|].
  destruct (e_lbl x =? l) eqn:E.
  - intros [= ->]. split; auto. apply N.eqb_eq; auto.
  - intro H. destruct (IH H). auto.
Qed.
Lemma find_edge_None l es : find_edge l es = None <-> ~ In l (map e_lbl es).
Proof.
  induction es as [|x es IH]; cbn; [tauto|].
  destruct (e_lbl x =? l) eqn:E.
  - apply N.eqb_eq in E. split; [discriminate | intro H; exfalso; apply H; auto].
  - apply N.eqb_neq in E. rewrite IH. tauto.
Qed.
Lemma find_edge_unique es e : NoDup (map e_lbl es) -> In e es -> find_edge (e_lbl e) es = Some e.
Proof.
  induction es as [|x es IH]; intros ND Hin; [contradiction|].
  cbn in ND. inversion ND as [|? ? Hx ND']; subst. cbn [find_edge].
  destruct Hin as [-> | Hin].
  - rewrite N.eqb_refl. reflexivity.
  - destruct (e_lbl x =? e_lbl e) eqn:E.
    + apply N.eqb_eq in E. exfalso. apply Hx. rewrite E. apply in_map; auto.
    + apply IH; auto.
Qed.

(* path lookups in a zip *)
Lemma plookup_In p d v : plookup p d = Some v -> In (p, v) d.
Proof.
  induction d as [|[k w] d IH]; cbn; [discriminate|].
  destruct (path_eqb p k) eqn:E.
  - apply path_eqb_eq in E. intros [= ->]. subst; auto.
  - intro H. right; auto.
Qed.
Lemma plookup_None p d : plookup p d = None <-> ~ In p (map fst d).
Proof.
  induction d as [|[k w] d IH]; cbn; [tauto|].
  destruct (path_eqb p k) eqn:E.
  - apply path_eqb_eq in E. split; [discriminate | intro H; exfalso; apply H; auto].
  - apply path_eqb_neq in E. rewrite IH. split; intros H; [intros [H1|H1]; [congruence | auto] | auto].
Qed.
Lemma plookup_unique d k v : NoDup (map fst d) -> In (k, v) d -> plookup k d = Some v.
Proof.
  induction d as [|[k' w] d IH]; intros ND Hin; [contradiction|].
  cbn in ND. inversion ND as [|? ? Hx ND']; subst. cbn [plookup].
  destruct Hin as [E | Hin].
  - inversion E; subst. rewrite path_eqb_refl. reflexivity.
  - destruct (path_eqb k k') eqn:E.
    + apply path_eqb_eq in E. subst. exfalso. apply Hx. change k' with (fst (k', v)). apply in_map; auto.
    + apply IH; auto.
Qed.

Lemma combine_map_fst {A B} (a : list A) (b : list B) : length a = length b -> map fst (combine a b) = a.
Proof. revert b; induction a; intros [|y b] H; cbn in *; try discriminate; auto. f_equal. apply IHa. lia. Qed.
Lemma combine_map_snd {A B} (a : list A) (b : list B) : length a = length b -> map snd (combine a b) = b.
Proof. revert b; induction a; intros [|y b] H; cbn in *; try discriminate; auto. f_equal. apply IHa. lia. Qed.

Lemma Forall2_length' {A B} (R : A -> B -> Prop) a b : Forall2 R a b -> length a = length b.
Proof. induction 1; cbn; auto. Qed.

(* Rewriting a segment K by the zip of K with its image K' yields K' (IDs unique in K). *)
Definition newrow (d : list (path * path)) (r : orow) : orow :=
  mkR (r_lbl r) (papply d (r_path r)) (r_attrs r).

Lemma orow_eta r : mkR (r_lbl r) (r_path r) (r_attrs r) = r.
Proof. destruct r; reflexivity. Qed.

Lemma newrow_zip_gen K K' d :
  Forall2 same_la K K' ->
  (forall r r', In (r, r') (combine K K') -> plookup (r_path r) d = Some (r_path r')) ->
  map (newrow d) K = K'.
Proof.
  intros F. induction F as [|r r' K K' [El Ea] F IH]; intro H; [reflexivity|].
  cbn [map]. f_equal.
  - unfold newrow, papply. rewrite (H r r') by (left; reflexivity).
    rewrite <- El, <- Ea. apply orow_eta.
  - apply IH. intros x x' Hx. apply H. right; auto.
Qed.

Lemma newrow_outside d r : ~ In (r_path r) (map fst d) -> newrow d r = r.
Proof.
  intro H. unfold newrow, papply. apply plookup_None in H. rewrite H. apply orow_eta.
Qed.

Lemma map_newrow_outside d rs :
  (forall r, In r rs -> ~ In (r_path r) (map fst d)) -> map (newrow d) rs = rs.
Proof.
  induction rs as [|r rs IH]; intro H; [reflexivity|]. cbn [map]. f_equal.
  - apply newrow_outside. apply H; left; auto.
  - apply IH. intros; apply H; right; auto.
Qed.

Lemma in_combine_same {A B} (a : list A) (b : list B) x y : In (x, y) (combine a b) -> In x a /\ In y b.
Proof. intro H. split; [eapply in_combine_l | eapply in_combine_r]; eauto. Qed.

(* NoDup of an append *)
Lemma NoDup_app_l {A} (a b : list A) : NoDup (a ++ b) -> NoDup a.
Proof. induction a; cbn; intro H; [constructor|]. inversion H; subst. constructor; auto. intro; apply H2; apply in_or_app; auto. Qed.
Lemma NoDup_app_r {A} (a b : list A) : NoDup (a ++ b) -> NoDup b.
Proof. induction a; cbn; intro H; auto. inversion H; auto. Qed.
Lemma NoDup_app_disj {A} (a b : list A) x : NoDup (a ++ b) -> In x a -> In x b -> False.
Proof.
  induction a; cbn; intros H Ha Hb; [contradiction|]. inversion H; subst.
  destruct Ha as [-> | Ha]; [apply H2; apply in_or_app; auto | eauto].
Qed.
