(* Executable property clauses for C38 / C39 / C40, evaluated on the IMPLEMENTATION's graph before the
   edit (gb), the projection of the graph after it (RA : object rows, EA : edges) and its predicted
   delta map.  They never call a spec operation: the structure they need (which object is the target,
   which rows form its subtree) is read off the graph before the edit.
   Proofs.v shows that every spec operation satisfies these very functions for all graphs. *)
From Coq Require Import List NArith Bool.
Import ListNotations.
Require Import V.Lib.RunCases V.C38.Spec.
Open Scope N_scope.

Definition isSome {A} (o : option A) : bool := match o with Some _ => true | None => false end.
Definition nmem (x : N) (l : list N) : bool := existsb (N.eqb x) l.

Section On.
  Variables (RB : list orow) (EB : list edge) (RA : list orow) (EA : list edge).

  (* what must disappear has disappeared *)
  Definition c_gone (ro : N -> bool) (re : edge -> bool) : bool :=
    forallb (fun r => negb (ro (r_lbl r)) || negb (isSome (lookup_row (r_lbl r) RA))) RB
    && forallb (fun e => negb (re e) || negb (isSome (find_edge (e_lbl e) EA))) EB.

  (* nothing else has disappeared *)
  Definition c_kept (ro : N -> bool) (re : edge -> bool) : bool :=
    forallb (fun r => ro (r_lbl r) || isSome (lookup_row (r_lbl r) RA)) RB
    && forallb (fun e => re e || isSome (find_edge (e_lbl e) EA)) EB.

  (* nothing has appeared *)
  Definition c_nonew : bool :=
    forallb (fun r => isSome (lookup_row (r_lbl r) RB)) RA
    && forallb (fun e => isSome (find_edge (e_lbl e) EB)) EA.

  (* attributes of survivors are the expected ones; edges stay attached to the same objects with the
     same arrowheads *)
  Definition c_attrs (fo : orow -> attrs) (fe : edge -> attrs) : bool :=
    forallb (fun r => match lookup_row (r_lbl r) RA with
                      | Some r' => attrs_eqb (r_attrs r') (fo r)
                      | None => true
                      end) RB
    && forallb (fun e => match find_edge (e_lbl e) EA with
                         | Some e' => (e_src e' =? e_src e) && (e_dst e' =? e_dst e)
                                      && Bool.eqb (e_sa e') (e_sa e) && Bool.eqb (e_da e') (e_da e)
                                      && attrs_eqb (e_attrs e') (fe e)
                         | None => true
                         end) EB.

  (* objects outside [moved] keep their ID *)
  Definition c_paths_same (moved : N -> bool) : bool :=
    forallb (fun r => moved (r_lbl r)
                      || match lookup_row (r_lbl r) RA with
                         | Some r' => path_eqb (r_path r') (r_path r)
                         | None => true
                         end) RB.

  (* edge indexes are the expected ones *)
  Definition c_idx (fi : edge -> N) : bool :=
    forallb (fun e => match find_edge (e_lbl e) EA with
                      | Some e' => e_idx e' =? fi e
                      | None => true
                      end) EB.

  (* the children of x (which sat at pp ++ [name x]) are now directly below pp, and everything below a
     child kept its place relative to that child *)
  Definition c_hoist_place (pp : path) (x : obj) : bool :=
    let xp := pp ++ [oname x] in
    forallb (fun k => match lookup_row (lbl k) RA with
                      | None => true
                      | Some k' =>
                          nonempty (r_path k') && path_eqb (removelast (r_path k')) pp
                          && forallb (fun r => match lookup_row (r_lbl r) RA with
                                               | Some r' => path_eqb (r_path r')
                                                              (r_path k' ++ skipn (S (length xp)) (r_path r))
                                               | None => true
                                               end) (flat_o xp k)
                      end) (kids x).

  (* a hoisted child was renamed only if its name is in use at the new place *)
  Definition c_hoist_names (pp : path) (x : obj) : bool :=
    forallb (fun k => match lookup_row (lbl k) RA with
                      | None => true
                      | Some k' =>
                          path_eqb (r_path k') (pp ++ [oname k])
                          || existsb (fun r2 => negb (r_lbl r2 =? lbl k) && path_eqb (r_path r2) (pp ++ [oname k])) RA
                      end) (kids x).

  (* the subtree of x (at pp ++ [name x] before) follows x *)
  Definition c_follow (pp : path) (x : obj) : bool :=
    match lookup_row (lbl x) RA with
    | None => true
    | Some x' => forallb (fun r => match lookup_row (r_lbl r) RA with
                                   | Some r' => path_eqb (r_path r')
                                                  (r_path x' ++ skipn (S (length pp)) (r_path r))
                                   | None => true
                                   end) (flat_o pp x)
    end.

  (* x now sits directly below the object with identity d (None: the root) *)
  Definition c_placed (x : obj) (d : option N) : bool :=
    match lookup_row (lbl x) RA with
    | None => true
    | Some x' =>
        nonempty (r_path x')
        && match d with
           | None => path_eqb (removelast (r_path x')) []
           | Some dl => match lookup_row dl RA with
                        | Some d' => path_eqb (removelast (r_path x')) (r_path d')
                        | None => false
                        end
           end
    end.

End On.

Definition has_attr (c : N) (a : attrs) : bool := existsb (fun kv => fst kv =? c) a.

(* C38 / C39: all clauses for one operation.  Codes:
     3  the operation's target does not exist in the graph before (harness error)
    10  the target (object and attached edges / edge / attribute) is still there
    11  another object or edge disappeared           12  an object or edge appeared
    13  an attribute, an endpoint or an arrowhead of a surviving element changed
    14  the ID of an object outside the affected subtree, or an edge index, changed
    15  a child of the deleted / moved-without-descendants object is not directly below the former
        parent, or lost its own subtree shape
    16  (delete only) a hoisted child was renamed although its name was free at the new place
    18  later parallel edges are not renumbered by exactly one
    20  the moved / renamed object is not directly below the requested parent
    21  a descendant did not follow the moved / renamed object                                     *)
Definition prop_codes (gb : graph) (o : op) (RA : list orow) (EA : list edge) : list N :=
  let RB := rows gb in
  let EB := g_edges gb in
  let none := fun _ : N => false in
  let enone := fun _ : edge => false in
  match o with
  | OpDelObj t =>
      match find_obj t (g_objs gb) with
      | None => [3]
      | Some (_, pp, _, x, _) =>
          let sub := map r_lbl (flat_f (pp ++ [oname x]) (kids x)) in
          flag (c_gone RB EB RA EA (N.eqb t) (touches t)) 10
          ++ flag (c_kept RB EB RA EA (N.eqb t) (touches t)) 11
          ++ flag (c_nonew RB EB RA EA) 12
          ++ flag (c_attrs RB EB RA EA r_attrs e_attrs) 13
          ++ flag (c_paths_same RB RA (fun l => nmem l sub) && c_idx EB EA e_idx) 14
          ++ flag (c_hoist_place RA pp x) 15
          ++ flag (c_hoist_names RA pp x) 16
      end
  | OpDelEdge l =>
      match find_edge l EB with
      | None => [3]
      | Some d =>
          flag (c_gone RB EB RA EA none (fun e => e_lbl e =? l)) 10
          ++ flag (c_kept RB EB RA EA none (fun e => e_lbl e =? l)) 11
          ++ flag (c_nonew RB EB RA EA) 12
          ++ flag (c_attrs RB EB RA EA r_attrs e_attrs) 13
          ++ flag (c_paths_same RB RA none) 14
          ++ flag (c_idx EB EA (fun e => e_idx (renumber d e))) 18
      end
  | OpDelObjAttr t c =>
      flag (match lookup_row t RA with Some r => negb (has_attr c (r_attrs r)) | None => true end) 10
      ++ flag (c_kept RB EB RA EA none enone) 11
      ++ flag (c_nonew RB EB RA EA) 12
      ++ flag (c_attrs RB EB RA EA (fun r => if r_lbl r =? t then del_attr c (r_attrs r) else r_attrs r) e_attrs) 13
      ++ flag (c_paths_same RB RA none && c_idx EB EA e_idx) 14
  | OpDelEdgeAttr l c =>
      flag (match find_edge l EA with Some e => negb (has_attr c (e_attrs e)) | None => true end) 10
      ++ flag (c_kept RB EB RA EA none enone) 11
      ++ flag (c_nonew RB EB RA EA) 12
      ++ flag (c_attrs RB EB RA EA r_attrs (fun e => if e_lbl e =? l then del_attr c (e_attrs e) else e_attrs e)) 13
      ++ flag (c_paths_same RB RA none && c_idx EB EA e_idx) 14
  | OpRename t n =>
      match find_obj t (g_objs gb) with
      | None => [3]
      | Some (_, pp, _, x, _) =>
          let sub := map r_lbl (flat_o pp x) in
          flag (c_kept RB EB RA EA none enone) 11
          ++ flag (c_nonew RB EB RA EA) 12
          ++ flag (c_attrs RB EB RA EA r_attrs e_attrs) 13
          ++ flag (c_paths_same RB RA (fun l => nmem l sub) && c_idx EB EA e_idx) 14
          ++ flag (match lookup_row t RA with
                   | Some x' => nonempty (r_path x') && path_eqb (removelast (r_path x')) pp
                   | None => true end) 20
          ++ flag (c_follow RA pp x) 21
      end
  | OpMove t d n incl =>
      match find_obj t (g_objs gb), dest_loc d (g_objs gb) with
      | Some (sl, pp, _, x, _), Some dl =>
          let sub := map r_lbl (flat_o pp x) in
          let hoisting := negb incl && negb (same_loc sl dl) in
          flag (c_kept RB EB RA EA none enone) 11
          ++ flag (c_nonew RB EB RA EA) 12
          ++ flag (c_attrs RB EB RA EA r_attrs e_attrs) 13
          ++ flag (c_paths_same RB RA (fun l => nmem l sub) && c_idx EB EA e_idx) 14
          ++ (if hoisting then flag (c_hoist_place RA pp x) 15 else [])
          ++ flag (c_placed RA x d) 20
          ++ (if hoisting then [] else flag (c_follow RA pp x) 21)
      | _, _ => [3]
      end
  end.

(* C40.  Codes:
    30  an object that survives does not have the predicted ID (or changed ID with no prediction)
    31  same for an edge
    32  a change is predicted for the ID of an element the edit removed                              *)
Definition delta_codes (gb : graph) (RA : list orow) (EA : list edge) (d : deltas) : list N :=
  let RB := rows gb in
  let EB := g_edges gb in
  flag (forallb (fun r => match lookup_row (r_lbl r) RA with
                          | Some r' => id_eqb (IdO (r_path r')) (predicted d (IdO (r_path r)))
                          | None => true
                          end) RB) 30
  ++ flag (forallb (fun e => match find_edge (e_lbl e) EA with
                             | Some e' => match edge_id RB e, edge_id RA e' with
                                          | Some k, Some k' => id_eqb k' (predicted d k)
                                          | _, _ => false
                                          end
                             | None => true
                             end) EB) 31
  ++ flag (forallb (fun r => isSome (lookup_row (r_lbl r) RA) || negb (isSome (dlookup (IdO (r_path r)) d))) RB
           && forallb (fun e => isSome (find_edge (e_lbl e) EA)
                                || match edge_id RB e with
                                   | Some k => negb (isSome (dlookup k d))
                                   | None => true
                                   end) EB) 32.

(* ---------------------------------------------------------------- order-free comparison (correspondence) *)

Definition row_eqb (a b : orow) : bool :=
  (r_lbl a =? r_lbl b) && path_eqb (r_path a) (r_path b) && attrs_eqb (r_attrs a) (r_attrs b).
Definition edge_eqb (a b : edge) : bool :=
  (e_lbl a =? e_lbl b) && (e_src a =? e_src b) && (e_dst a =? e_dst b) && Bool.eqb (e_sa a) (e_sa b)
  && Bool.eqb (e_da a) (e_da b) && (e_idx a =? e_idx b) && attrs_eqb (e_attrs a) (e_attrs b).

Definition rows_equiv (A B : list orow) : bool :=
  Nat.eqb (length A) (length B)
  && forallb (fun r => match lookup_row (r_lbl r) B with Some r' => row_eqb r r' | None => false end) A.
Definition edges_equiv (A B : list edge) : bool :=
  Nat.eqb (length A) (length B)
  && forallb (fun e => match find_edge (e_lbl e) B with Some e' => edge_eqb e e' | None => false end) A.

(* model output vs implementation output *)
Definition graph_matches (g' : graph) (RA : list orow) (EA : list edge) : bool :=
  rows_equiv (rows g') RA && edges_equiv (g_edges g') EA.

(* delta maps are compared as sets of proper changes (entries k -> k carry no information) *)
Definition proper (d : deltas) : deltas := filter (fun kv => negb (id_eqb (fst kv) (snd kv))) d.
Definition deltas_sub (a b : deltas) : bool :=
  forallb (fun kv => match dlookup (fst kv) b with Some v => id_eqb v (snd kv) | None => false end) a.
Definition deltas_equiv (a b : deltas) : bool :=
  deltas_sub (proper a) (proper b) && deltas_sub (proper b) (proper a).
