(* Part 4: the two equations that characterise every spec operation on the projection. *)
From Coq Require Import List Arith NArith Bool Lia Permutation.
Import ListNotations.
Require Import V.Lib.RunCases V.C38.Spec V.C38.Proofs V.C38.Rows V.C38.Ops.
Open Scope N_scope.

Lemma after_row_newrow g o r : new_attrs o r = r_attrs r -> after_row g o r = newrow (obj_deltas g o) r.
Proof. intro H. unfold after_row, newrow, new_path. rewrite H. reflexivity. Qed.

Lemma map_after_newrow g o rs :
  (forall r, new_attrs o r = r_attrs r) -> map (after_row g o) rs = map (newrow (obj_deltas g o)) rs.
Proof. intro H. apply map_ext. intro r. apply after_row_newrow. apply H. Qed.

Lemma filter_keep_all o rs : (forall l, removed_obj o l = false) -> filter (keep_row o) rs = rs.
Proof. intro H. apply filter_all. intros x _. unfold keep_row. rewrite H. reflexivity. Qed.

Lemma same_loc_eq a b : same_loc a b = true -> a = b.
Proof. apply list_eqb_eq. intros; apply Nat.eqb_eq. Qed.

(* rows after = predicted rows, for every operation *)
Theorem rows_after g o g' :
  uniq g -> spec_apply g o = Some g' ->
  Permutation (rows g') (map (after_row g o) (filter (keep_row o) (rows g))).
Proof.
  intros [NL NP] H. unfold rows in *.
  destruct o as [t | l | t c | l c | t n | t d n incl]; cbn [spec_apply] in H.
  - (* delete object *)
    unfold spec_delete_object in H.
    destruct (find_obj t (g_objs g)) as [[[[[sl pp] a] x] b]|] eqn:Hf; [|discriminate].
    inversion H; subst g'; clear H. cbn [g_objs].
    rewrite (delete_rows_forest _ _ _ _ _ _ _ NL NP Hf).
    rewrite map_after_newrow by reflexivity. cbn [obj_deltas]. rewrite Hf. reflexivity.
  - (* delete edge *)
    unfold spec_delete_edge in H. destruct (find_edge l (g_edges g)); [|discriminate].
    inversion H; subst g'; clear H. cbn [g_objs].
    rewrite filter_keep_all by reflexivity. rewrite map_after_newrow by reflexivity.
    cbn [obj_deltas]. rewrite map_newrow_nil. reflexivity.
  - (* delete object attribute *)
    inversion H; subst g'; clear H. cbn [spec_delete_obj_attr g_objs].
    rewrite filter_keep_all by reflexivity. rewrite flat_f_map_obj.
    apply Permutation_refl'. apply map_ext. intro r. unfold after_row, new_path, papply. reflexivity.
  - (* delete edge attribute *)
    inversion H; subst g'; clear H. cbn [spec_delete_edge_attr g_objs].
    rewrite filter_keep_all by reflexivity. rewrite map_after_newrow by reflexivity.
    cbn [obj_deltas]. rewrite map_newrow_nil. reflexivity.
  - (* rename *)
    unfold spec_rename in H. rewrite filter_keep_all by reflexivity.
    rewrite map_after_newrow by reflexivity. cbn [obj_deltas].
    destruct (find_obj t (g_objs g)) as [[[[[sl pp] a] x] b]|] eqn:Hf; [|discriminate].
    destruct (str_eqb n (oname x)).
    + inversion H; subst g'. rewrite map_newrow_nil. reflexivity.
    + inversion H; subst g'; clear H. cbn [g_objs].
      rewrite (rename_rows_forest _ _ _ _ _ _ _ _ NP Hf). reflexivity.
  - (* move *)
    unfold spec_move in H. rewrite filter_keep_all by reflexivity.
    rewrite map_after_newrow by reflexivity. cbn [obj_deltas].
    destruct (find_obj t (g_objs g)) as [[[[[sl pp] a] x] b]|] eqn:Hf; [|discriminate].
    destruct (dest_loc d (g_objs g)) as [dl|] eqn:Hd; [|discriminate].
    destruct (get_list dl [] (g_objs g)) as [[dp dks]|] eqn:Hg; [|discriminate].
    destruct (same_loc sl dl) eqn:Hs.
    + destruct (str_eqb n (oname x)).
      * inversion H; subst g'. rewrite map_newrow_nil. reflexivity.
      * inversion H; subst g'; clear H. cbn [g_objs].
        rewrite (rename_rows_forest _ _ _ _ _ _ _ _ NP Hf). reflexivity.
    + destruct incl.
      * destruct (dest_loc d (set_list sl (a ++ b) (g_objs g))) as [dl1|] eqn:Hd1; [|discriminate].
        destruct (get_list dl1 [] (set_list sl (a ++ b) (g_objs g))) as [[dp1 dks1]|] eqn:Hg1; [|discriminate].
        inversion H; subst g'; clear H. cbn [g_objs].
        eapply move_incl_rows; eauto.
      * destruct (dest_loc d (set_list sl (a ++ hoist_kids (names (a ++ b)) (oname x) (kids x) ++ b) (g_objs g)))
          as [dl1|] eqn:Hd1; [|discriminate].
        destruct (get_list dl1 [] (set_list sl (a ++ hoist_kids (names (a ++ b)) (oname x) (kids x) ++ b) (g_objs g)))
          as [[dp1 dks1]|] eqn:Hg1; [|discriminate].
        inversion H; subst g'; clear H. cbn [g_objs].
        eapply move_alone_rows; eauto.
Qed.

(* edges after = predicted edges, for every operation (identities of the endpoints never change) *)
Theorem edges_after g o g' :
  spec_apply g o = Some g' -> g_edges g' = map (after_edge g o) (filter (keep_edge o) (g_edges g)).
Proof.
  assert (Hid : forall es : list edge, es = map (fun e => e) (filter (fun _ => true) es)).
  { intro es. rewrite map_id. symmetry. apply filter_all. auto. }
  intro H. destruct o as [t | l | t c | l c | t n | t d n incl]; cbn [spec_apply] in H.
  - unfold spec_delete_object in H.
    destruct (find_obj t (g_objs g)) as [[[[[sl pp] a] x] b]|]; [|discriminate].
    inversion H; subst g'; clear H. cbn [g_edges]. rewrite map_id. reflexivity.
  - unfold spec_delete_edge in H. destruct (find_edge l (g_edges g)) as [de|] eqn:E; [|discriminate].
    inversion H; subst g'; clear H. cbn [g_edges]. unfold after_edge. rewrite E. reflexivity.
  - inversion H; subst g'. cbn [spec_delete_obj_attr g_edges]. apply Hid.
  - inversion H; subst g'. cbn [spec_delete_edge_attr g_edges].
    unfold keep_edge, removed_edge. cbn [negb]. rewrite filter_all by auto. reflexivity.
  - unfold spec_rename in H.
    destruct (find_obj t (g_objs g)) as [[[[[sl pp] a] x] b]|]; [|discriminate].
    destruct (str_eqb n (oname x)); inversion H; subst g'; cbn [g_edges]; apply Hid.
  - unfold spec_move in H.
    destruct (find_obj t (g_objs g)) as [[[[[sl pp] a] x] b]|]; [|discriminate].
    destruct (dest_loc d (g_objs g)) as [dl|]; [|discriminate].
    destruct (get_list dl [] (g_objs g)) as [[dp dks]|]; [|discriminate].
    destruct (same_loc sl dl).
    + destruct (str_eqb n (oname x)); inversion H; subst g'; cbn [g_edges]; apply Hid.
    + match type of H with
      | match dest_loc d ?f1 with _ => _ end = _ =>
          destruct (dest_loc d f1) as [dl1|]; [|discriminate];
          destruct (get_list dl1 [] f1) as [[dp1 dks1]|]; [|discriminate]
      end.
      inversion H; subst g'; cbn [g_edges]; apply Hid.
Qed.

(* ------------------------------------------------------------------ consequences for lookups by identity *)

Lemma after_row_lbl g o r : r_lbl (after_row g o r) = r_lbl r.
Proof. reflexivity. Qed.

Lemma labels_after g o rs : labels (map (after_row g o) rs) = labels rs.
Proof. unfold labels. rewrite map_map. reflexivity. Qed.

Lemma NoDup_filter {A} (f : A -> bool) l : NoDup l -> NoDup (filter f l).
Proof.
  induction 1 as [|x l Hx ND IH]; cbn; [constructor|]. destruct (f x); auto.
  constructor; auto. intro H. apply Hx. apply filter_In in H. tauto.
Qed.

Lemma labels_filter_NoDup (f : orow -> bool) rs : NoDup (labels rs) -> NoDup (labels (filter f rs)).
Proof.
  unfold labels. induction rs as [|x l IH]; cbn; intro H; [constructor|]. inversion H; subst.
  destruct (f x); cbn; auto. constructor; auto. intro Hin. apply H2.
  apply in_map_iff in Hin as [y [Ey Hy]]. apply filter_In in Hy as [Hy _]. rewrite <- Ey. apply in_map; auto.
Qed.

(* a surviving object is found after the edit, as its predicted row *)
Theorem lookup_after_kept g o g' r :
  uniq g -> spec_apply g o = Some g' -> In r (rows g) -> keep_row o r = true ->
  lookup_row (r_lbl r) (rows g') = Some (after_row g o r).
Proof.
  intros U H Hr Hk. pose proof (rows_after _ _ _ U H) as P. destruct U as [NL NP].
  set (L := map (after_row g o) (filter (keep_row o) (rows g))) in *.
  assert (NDL : NoDup (labels L)) by (unfold L; rewrite labels_after; apply labels_filter_NoDup; auto).
  rewrite (lookup_row_perm (r_lbl r) L (rows g') NDL (Permutation_sym P)).
  change (r_lbl r) with (r_lbl (after_row g o r)). apply lookup_row_unique; auto.
  unfold L. apply in_map. apply filter_In. auto.
Qed.

(* a removed object is not found *)
Theorem lookup_after_removed g o g' r :
  uniq g -> spec_apply g o = Some g' -> In r (rows g) -> keep_row o r = false ->
  lookup_row (r_lbl r) (rows g') = None.
Proof.
  intros U H Hr Hk. pose proof (rows_after _ _ _ U H) as P. destruct U as [NL NP].
  apply lookup_row_None. intro Hin.
  assert (Hin' : In (r_lbl r) (labels (map (after_row g o) (filter (keep_row o) (rows g))))).
  { eapply Permutation_in; [apply Permutation_map; exact P | exact Hin]. }
  rewrite labels_after in Hin'. unfold labels in Hin'. apply in_map_iff in Hin' as [r2 [E H2]].
  apply filter_In in H2 as [H2 K2].
  assert (r2 = r) by (eapply NoDup_labels_inj; eauto). subst r2. congruence.
Qed.

(* nothing appears: every row after comes from a kept row before *)
Theorem rows_after_origin g o g' r' :
  uniq g -> spec_apply g o = Some g' -> In r' (rows g') ->
  exists r, In r (rows g) /\ keep_row o r = true /\ r' = after_row g o r.
Proof.
  intros U H Hr'. pose proof (rows_after _ _ _ U H) as P.
  pose proof (Permutation_in _ P Hr') as Hin. apply in_map_iff in Hin as [r [E Hr]].
  apply filter_In in Hr as [Hr Hk]. exists r. auto.
Qed.

(* unique identities are preserved *)
Theorem labels_after_NoDup g o g' : uniq g -> spec_apply g o = Some g' -> NoDup (labels (rows g')).
Proof.
  intros U H. pose proof (rows_after _ _ _ U H) as P. destruct U as [NL NP].
  eapply Permutation_NoDup; [apply Permutation_sym, Permutation_map; exact P|].
  fold (labels (map (after_row g o) (filter (keep_row o) (rows g)))).
  rewrite labels_after. apply labels_filter_NoDup; auto.
Qed.
