(* Abstract specification of the d2oracle editing operations on the semantic graph
   (shared by C38 delete, C39 rename/move, C40 ID deltas).  Definitions only.

   A graph is a forest of objects plus a list of edges.  Every object and every edge carries an
   immutable identity [lbl] (in the harness: the unique label text "L<n>" / "E<n>" the generator
   attaches to each element), so elements can be matched across an edit independently of their IDs.
   The ID of an object ([abs_id], d2graph.Object.AbsID) is the path of names from the root; the ID of
   an edge (d2graph.Edge.AbsID) is determined by the IDs of its endpoints, the two arrowheads and its
   index among parallel edges.

   The operations are tree surgery on the forest.  The predicted ID deltas ([spec_deltas]) are a
   separate computation that never builds the edited forest: as the Go functions DeleteIDDeltas /
   RenameIDDeltas / MoveIDDeltas do, it walks the affected subtree, re-parents it temporarily and reads
   the IDs off again.  Main.v / C40.Proofs relate the two for all graphs. *)
From Coq Require Import List NArith Bool Decimal DecimalN.
Import ListNotations.
Require Import V.Lib.RunCases.
Open Scope N_scope.

(* ------------------------------------------------------------------ strings, names *)

Definition str := list N.
Definition str_eqb : str -> str -> bool := list_eqb N.eqb.
Definition path := list str.
Definition path_eqb : path -> path -> bool := list_eqb str_eqb.
Definition attr := (N * str)%type.             (* attribute code (see harness/c38.go), value bytes *)
Definition attrs := list attr.
Definition attr_eqb (a b : attr) : bool := (fst a =? fst b) && str_eqb (snd a) (snd b).
Definition attrs_eqb : attrs -> attrs -> bool := list_eqb attr_eqb.

Definition smem (s : str) (l : list str) : bool := existsb (str_eqb s) l.

(* decimal numeral of n, as Go's %d prints it *)
Fixpoint udigits (u : Decimal.uint) : str :=
  match u with
  | Nil => []
  | D0 u => 48 :: udigits u | D1 u => 49 :: udigits u | D2 u => 50 :: udigits u
  | D3 u => 51 :: udigits u | D4 u => 52 :: udigits u | D5 u => 53 :: udigits u
  | D6 u => 54 :: udigits u | D7 u => 55 :: udigits u | D8 u => 56 :: udigits u
  | D9 u => 57 :: udigits u
  end.
Definition dec (n : N) : str := udigits (N.to_uint n).

(* fmt.Sprintf("%s %d", base, i) *)
Definition with_idx (base : str) (i : N) : str := base ++ 32 :: dec i.

(* generateUniqueKey: "The key may already have an index, e.g. x 2": split at the last space and drop
   the last piece when strconv.Atoi accepts it. *)
Fixpoint rsplit (s : str) : option (str * str) :=
  match s with
  | [] => None
  | c :: r => match rsplit r with
              | Some (a, b) => Some (c :: a, b)
              | None => if c =? 32 then Some ([], r) else None
              end
  end.
Definition is_digit (c : N) : bool := (48 <=? c) && (c <=? 57).
Definition atoi_ok (s : str) : bool :=
  match s with
  | [] => false
  | c :: r => if (c =? 43) || (c =? 45) then nonempty r && forallb is_digit r else forallb is_digit s
  end.
Definition strip_index (s : str) : str :=
  match rsplit s with
  | Some (a, b) => if atoi_ok b then a else s
  | None => s
  end.

(* first of  base 2, base 3, ...  that is not taken; fuel = |taken| suffices (Proofs: first_free_fresh) *)
Fixpoint first_free (base : str) (taken : list str) (i : N) (fuel : nat) : str :=
  let c := with_idx base i in
  match fuel with
  | O => c
  | S f => if smem c taken then first_free base taken (i + 1) f else c
  end.

(* generateUniqueKey on the last path element: [strip] = "an object other than the ignored one exists
   under the requested name". Candidates: base, base 2, base 3, ... *)
Definition gen_unique (taken : list str) (strip : bool) (n : str) : str :=
  let base := if strip then strip_index n else n in
  if smem base taken then first_free base taken 2 (length taken) else base.

(* ------------------------------------------------------------------ graphs *)

Inductive obj := Obj (l : N) (n : str) (a : attrs) (ks : list obj).
Definition forest := list obj.
Definition lbl (o : obj) : N := match o with Obj l _ _ _ => l end.
Definition oname (o : obj) : str := match o with Obj _ n _ _ => n end.
Definition oattrs (o : obj) : attrs := match o with Obj _ _ a _ => a end.
Definition kids (o : obj) : forest := match o with Obj _ _ _ ks => ks end.
Definition names (f : forest) : list str := map oname f.

Record edge := mkE { e_lbl : N; e_src : N; e_dst : N; e_sa : bool; e_da : bool; e_idx : N; e_attrs : attrs }.
Record graph := mkG { g_objs : forest; g_edges : list edge }.

(* order-preserving projection: one row per object = (identity, absolute ID, attributes) *)
Record orow := mkR { r_lbl : N; r_path : path; r_attrs : attrs }.

Fixpoint flat_o (pre : path) (o : obj) : list orow :=
  match o with
  | Obj l n a ks => mkR l (pre ++ [n]) a :: flat_map (flat_o (pre ++ [n])) ks
  end.
Definition flat_f (pre : path) (f : forest) : list orow := flat_map (flat_o pre) f.
Definition rows (g : graph) : list orow := flat_f [] (g_objs g).

Fixpoint lookup_row (l : N) (rs : list orow) : option orow :=
  match rs with
  | [] => None
  | r :: rs' => if r_lbl r =? l then Some r else lookup_row l rs'
  end.
Definition path_of (rs : list orow) (l : N) : option path := option_map r_path (lookup_row l rs).

(* IDs *)
Inductive id :=
| IdO (p : path)
| IdE (src dst : path) (sa da : bool) (idx : N).

Definition id_eqb (a b : id) : bool :=
  match a, b with
  | IdO p, IdO q => path_eqb p q
  | IdE s d sa da i, IdE s' d' sa' da' i' =>
      path_eqb s s' && path_eqb d d' && Bool.eqb sa sa' && Bool.eqb da da' && (i =? i')
  | _, _ => false
  end.

Definition edge_id (rs : list orow) (e : edge) : option id :=
  match path_of rs (e_src e), path_of rs (e_dst e) with
  | Some s, Some d => Some (IdE s d (e_sa e) (e_da e) (e_idx e))
  | _, _ => None
  end.

Definition deltas := list (id * id).
Fixpoint dlookup (k : id) (d : deltas) : option id :=
  match d with
  | [] => None
  | (k', v) :: d' => if id_eqb k k' then Some v else dlookup k d'
  end.
(* "ends up with the predicted new ID, or keeps its old ID when no change is predicted" *)
Definition predicted (d : deltas) (k : id) : id := match dlookup k d with Some v => v | None => k end.

(* ------------------------------------------------------------------ locating objects *)

Fixpoint top_index (t : N) (f : forest) : option nat :=
  match f with
  | [] => None
  | o :: r => if lbl o =? t then Some O else option_map S (top_index t r)
  end.

Definition locate_gen (rec : obj -> option (list nat * nat)) :=
  fix go (j : nat) (f : forest) : option (list nat * nat) :=
    match f with
    | [] => None
    | o :: r => match rec o with
                | Some (sl, i) => Some (j :: sl, i)
                | None => go (S j) r
                end
    end.

(* (location of the sibling list that contains the object, position in that list) *)
Fixpoint locate_o (t : N) (o : obj) : option (list nat * nat) :=
  match o with
  | Obj _ _ _ ks => match top_index t ks with
                    | Some i => Some ([], i)
                    | None => locate_gen (locate_o t) O ks
                    end
  end.
Definition locate (t : N) (f : forest) : option (list nat * nat) :=
  match top_index t f with
  | Some i => Some ([], i)
  | None => locate_gen (locate_o t) O f
  end.

(* a location is a list of child positions; it names a child list (the root list for []) *)
Fixpoint get_list (is : list nat) (pre : path) (f : forest) : option (path * forest) :=
  match is with
  | [] => Some (pre, f)
  | i :: r => match nth_error f i with
              | Some (Obj _ n _ ks) => get_list r (pre ++ [n]) ks
              | None => None
              end
  end.

Fixpoint upd_nth {A} (i : nat) (g : A -> A) (l : list A) : list A :=
  match l, i with
  | [], _ => []
  | x :: r, O => g x :: r
  | x :: r, S j => x :: upd_nth j g r
  end.

Fixpoint set_list (is : list nat) (s' : forest) (f : forest) : forest :=
  match is with
  | [] => s'
  | i :: r => upd_nth i (fun o => match o with Obj l n a ks => Obj l n a (set_list r s' ks) end) f
  end.

(* the object with identity t: (location of its sibling list, parent path, siblings before, it, siblings after) *)
Definition find_obj (t : N) (f : forest) : option (list nat * path * forest * obj * forest) :=
  match locate t f with
  | None => None
  | Some (sl, i) =>
      match get_list sl [] f with
      | None => None
      | Some (pp, sibs) =>
          match nth_error sibs i with
          | None => None
          | Some x => Some (sl, pp, firstn i sibs, x, skipn (S i) sibs)
          end
      end
  end.

Definition set_name (n : str) (o : obj) : obj := match o with Obj l _ a ks => Obj l n a ks end.
Definition set_kids (ks : forest) (o : obj) : obj := match o with Obj l n a _ => Obj l n a ks end.

(* ------------------------------------------------------------------ delete object *)

(* Children of the deleted object x move to x's parent.  A child keeps its name unless that name is
   taken there; then it gets generateUniqueKey's next free name.
     sib    names of x's siblings (x excluded)
     ex     names that count as existing objects for the generator: sib, plus x's own name when one of
            the children has that name (that child takes x's place)
     xn     x's name
     all    original names of all children (names of the other children are never generated)
     asg    names already assigned to earlier children                                            *)
Fixpoint hoist (sib ex : list str) (xn : str) (all asg : list str) (ks : forest) : forest :=
  match ks with
  | [] => []
  | k :: r =>
      let n := oname k in
      if str_eqb n xn then k :: hoist sib ex xn all asg r
      else if smem n sib || smem n asg then
        let others := filter (fun m => negb (str_eqb m n) && negb (str_eqb m xn)) all in
        let n' := gen_unique (ex ++ asg ++ others) (smem n sib) n in
        set_name n' k :: hoist sib ex xn all (asg ++ [n']) r
      else k :: hoist sib ex xn all (asg ++ [n]) r
  end.

Definition hoist_kids (sib : list str) (xn : str) (ks : forest) : forest :=
  let ex := if smem xn (names ks) then sib ++ [xn] else sib in
  hoist sib ex xn (names ks) [] ks.

Definition touches (t : N) (e : edge) : bool := (e_src e =? t) || (e_dst e =? t).

Definition spec_delete_object (g : graph) (t : N) : option graph :=
  match find_obj t (g_objs g) with
  | None => None
  | Some (sl, pp, a, x, b) =>
      let s' := a ++ hoist_kids (names (a ++ b)) (oname x) (kids x) ++ b in
      Some (mkG (set_list sl s' (g_objs g)) (filter (fun e => negb (touches t e)) (g_edges g)))
  end.

(* ------------------------------------------------------------------ delete edge *)

Definition parallel (e e' : edge) : bool :=
  (e_src e =? e_src e') && (e_dst e =? e_dst e') && Bool.eqb (e_sa e) (e_sa e') && Bool.eqb (e_da e) (e_da e').

Fixpoint find_edge (l : N) (es : list edge) : option edge :=
  match es with
  | [] => None
  | e :: r => if e_lbl e =? l then Some e else find_edge l r
  end.

Definition set_idx (i : N) (e : edge) : edge :=
  mkE (e_lbl e) (e_src e) (e_dst e) (e_sa e) (e_da e) i (e_attrs e).

(* later parallel edges are renumbered *)
Definition renumber (d : edge) (e : edge) : edge :=
  if parallel d e && (e_idx d <? e_idx e) then set_idx (e_idx e - 1) e else e.

Definition spec_delete_edge (g : graph) (l : N) : option graph :=
  match find_edge l (g_edges g) with
  | None => None
  | Some d => Some (mkG (g_objs g)
                        (map (renumber d) (filter (fun e => negb (e_lbl e =? l)) (g_edges g))))
  end.

(* ------------------------------------------------------------------ delete attribute *)

Definition del_attr (c : N) (a : attrs) : attrs := filter (fun kv => negb (fst kv =? c)) a.

Fixpoint map_obj (t : N) (fa : attrs -> attrs) (o : obj) : obj :=
  match o with
  | Obj l n a ks => Obj l n (if l =? t then fa a else a) (map (map_obj t fa) ks)
  end.

Definition spec_delete_obj_attr (g : graph) (t c : N) : graph :=
  mkG (map (map_obj t (del_attr c)) (g_objs g)) (g_edges g).

Definition set_eattrs (a : attrs) (e : edge) : edge :=
  mkE (e_lbl e) (e_src e) (e_dst e) (e_sa e) (e_da e) (e_idx e) a.

Definition spec_delete_edge_attr (g : graph) (l c : N) : graph :=
  mkG (g_objs g) (map (fun e => if e_lbl e =? l then set_eattrs (del_attr c (e_attrs e)) e else e) (g_edges g)).

(* ------------------------------------------------------------------ rename *)

(* RenameIDDeltas: the new name must be free among the siblings (the object itself is ignored). *)
Definition spec_rename (g : graph) (t : N) (n : str) : option graph :=
  match find_obj t (g_objs g) with
  | None => None
  | Some (sl, pp, a, x, b) =>
      if str_eqb n (oname x) then Some g
      else
        let n' := gen_unique (names (a ++ b)) (smem n (names (a ++ b))) n in
        Some (mkG (set_list sl (a ++ set_name n' x :: b) (g_objs g)) (g_edges g))
  end.

(* ------------------------------------------------------------------ move *)

(* destination: child list of the object with identity d (None = root) *)
Definition dest_loc (d : option N) (f : forest) : option (list nat) :=
  match d with
  | None => Some []
  | Some dl => match locate dl f with
               | Some (sl, i) => Some (sl ++ [i])
               | None => None
               end
  end.

Definition same_loc (a b : list nat) : bool := list_eqb Nat.eqb a b.

(* Move(key, newKey, includeDescendants) with key = ID of t, newKey = ID of d ++ [n].
   The name at the destination is made unique against everything that is there before the move
   (move calls generateUniqueKey with nothing ignored, so in a same-scope move the object's own
   current name counts as taken). *)
Definition spec_move (g : graph) (t : N) (d : option N) (n : str) (incl : bool) : option graph :=
  match find_obj t (g_objs g), dest_loc d (g_objs g) with
  | Some (sl, pp, a, x, b), Some dl =>
      match get_list dl [] (g_objs g) with
      | None => None
      | Some (_, dks) =>
          if same_loc sl dl then
            (* same scope: a rename; descendants stay below the object *)
            if str_eqb n (oname x) then Some g
            else
              let n' := gen_unique (names dks) (smem n (names dks)) n in
              Some (mkG (set_list sl (a ++ set_name n' x :: b) (g_objs g)) (g_edges g))
          else
            let n' := gen_unique (names dks) (smem n (names dks)) n in
            let s' := if incl then a ++ b
                      else a ++ hoist_kids (names (a ++ b)) (oname x) (kids x) ++ b in
            let x' := if incl then set_name n' x else set_kids [] (set_name n' x) in
            let f1 := set_list sl s' (g_objs g) in
            match dest_loc d f1 with
            | None => None        (* destination inside the moved subtree *)
            | Some dl1 =>
                match get_list dl1 [] f1 with
                | None => None
                | Some (_, dks1) => Some (mkG (set_list dl1 (dks1 ++ [x']) f1) (g_edges g))
                end
            end
      end
  | _, _ => None
  end.

(* ------------------------------------------------------------------ operations and predicted deltas *)

Inductive op :=
| OpDelObj (t : N)
| OpDelEdge (l : N)
| OpDelObjAttr (t c : N)
| OpDelEdgeAttr (l c : N)
| OpRename (t : N) (n : str)
| OpMove (t : N) (d : option N) (n : str) (incl : bool).

Definition spec_apply (g : graph) (o : op) : option graph :=
  match o with
  | OpDelObj t => spec_delete_object g t
  | OpDelEdge l => spec_delete_edge g l
  | OpDelObjAttr t c => Some (spec_delete_obj_attr g t c)
  | OpDelEdgeAttr l c => Some (spec_delete_edge_attr g l c)
  | OpRename t n => spec_rename g t n
  | OpMove t d n incl => spec_move g t d n incl
  end.

(* Predicted object-ID changes, computed the way the Go delta functions do: walk the affected
   subtree, re-parent / rename it temporarily and read the IDs off again - i.e. the IDs of the subtree
   flattened below its old place, zipped with the IDs of the same subtree flattened below its new
   place.  The edited forest is never built here. *)
Definition paths (rs : list orow) : list path := map r_path rs.
Definition zip_paths (before after : list orow) : list (path * path) := combine (paths before) (paths after).

Fixpoint plookup (p : path) (d : list (path * path)) : option path :=
  match d with
  | [] => None
  | (k, v) :: d' => if path_eqb p k then Some v else plookup p d'
  end.
Definition papply (d : list (path * path)) (p : path) : path :=
  match plookup p d with Some v => v | None => p end.

Definition obj_deltas (g : graph) (o : op) : list (path * path) :=
  match o with
  | OpDelObj t =>
      match find_obj t (g_objs g) with
      | Some (_, pp, a, x, b) =>
          zip_paths (flat_f (pp ++ [oname x]) (kids x))
                    (flat_f pp (hoist_kids (names (a ++ b)) (oname x) (kids x)))
      | None => []
      end
  | OpRename t n =>
      match find_obj t (g_objs g) with
      | Some (_, pp, a, x, b) =>
          if str_eqb n (oname x) then []
          else zip_paths (flat_o pp x)
                         (flat_o pp (set_name (gen_unique (names (a ++ b)) (smem n (names (a ++ b))) n) x))
      | None => []
      end
  | OpMove t d n incl =>
      match find_obj t (g_objs g), dest_loc d (g_objs g) with
      | Some (sl, pp, a, x, b), Some dl =>
          match get_list dl [] (g_objs g) with
          | Some (dp, dks) =>
              let n' := gen_unique (names dks) (smem n (names dks)) n in
              if same_loc sl dl then
                if str_eqb n (oname x) then []
                else zip_paths (flat_o pp x) (flat_o pp (set_name n' x))
              else if incl then zip_paths (flat_o pp x) (flat_o dp (set_name n' x))
              else
                (* children are hoisted; the destination's own ID changes when it is one of them *)
                let hz := zip_paths (flat_f (pp ++ [oname x]) (kids x))
                                    (flat_f pp (hoist_kids (names (a ++ b)) (oname x) (kids x))) in
                (pp ++ [oname x], papply hz dp ++ [n']) :: hz
          | None => []
          end
      | _, _ => []
      end
  | _ => []
  end.

Definition removed_obj (o : op) (l : N) : bool :=
  match o with OpDelObj t => l =? t | _ => false end.
Definition removed_edge (o : op) (e : edge) : bool :=
  match o with
  | OpDelObj t => touches t e
  | OpDelEdge l => e_lbl e =? l
  | _ => false
  end.
Definition new_idx (g : graph) (o : op) (e : edge) : N :=
  match o with
  | OpDelEdge l => match find_edge l (g_edges g) with
                   | Some d => e_idx (renumber d e)
                   | None => e_idx e
                   end
  | _ => e_idx e
  end.

Definition new_path (g : graph) (o : op) (p : path) : path := papply (obj_deltas g o) p.

Definition new_edge_id (g : graph) (o : op) (e : edge) : option id :=
  match path_of (rows g) (e_src e), path_of (rows g) (e_dst e) with
  | Some s, Some d => Some (IdE (new_path g o s) (new_path g o d) (e_sa e) (e_da e) (new_idx g o e))
  | _, _ => None
  end.

(* predicted delta map: one entry per surviving element whose ID changes *)
Definition spec_deltas (g : graph) (o : op) : deltas :=
  flat_map (fun kv => if path_eqb (fst kv) (snd kv) then [] else [(IdO (fst kv), IdO (snd kv))])
           (obj_deltas g o)
  ++ flat_map (fun e => if removed_edge o e then []
                        else match edge_id (rows g) e, new_edge_id g o e with
                             | Some k, Some k' => if id_eqb k k' then [] else [(k, k')]
                             | _, _ => []
                             end)
              (g_edges g).

(* ------------------------------------------------------------------ well-formedness *)

Fixpoint nodupb {A} (eqb : A -> A -> bool) (l : list A) : bool :=
  match l with
  | [] => true
  | x :: r => negb (existsb (eqb x) r) && nodupb eqb r
  end.

(* identities unique, IDs unique, edges attached to existing objects, parallel edges numbered apart *)
Definition wf_b (g : graph) : bool :=
  nodupb N.eqb (map r_lbl (rows g))
  && nodupb path_eqb (map r_path (rows g))
  && nodupb N.eqb (map e_lbl (g_edges g))
  && forallb (fun e => match edge_id (rows g) e with Some _ => true | None => false end) (g_edges g)
  && nodupb (fun e e' => parallel e e' && (e_idx e =? e_idx e')) (g_edges g).
