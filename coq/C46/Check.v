(* Executable checker for C46 cases.  One case = one SVG with one table of worker results and many
   RUNS of imgbundler.BundleRemote / BundleLocal on it, each with a completion order of the workers
   that the harness forced from outside.

   codes:  1  model differs from the implementation (eligible references; output bytes for the SAME
              completion order; reported errors)
           2  noninterf is false on the real patterns / replacement texts of this case
          10  reported errors are not exactly the references that failed to load (as a multiset)
          11  output is not the token-wise replacement (each loaded reference replaced by the data URI
              element of its content, every other byte unchanged)
          12  two completion orders gave different outputs                                           *)
From Coq Require Import List NArith ZArith Bool.
From Coq Require Export Uint63.
Import ListNotations.
Require Import V.Lib.RunCases V.C46.Model.
Open Scope N_scope.

(* transport encoding of byte strings in case files: 7 bytes per primitive 63-bit integer, big-endian,
   the last word padded with zero bytes, [len] = number of bytes (list literals of small numbers are
   ten times slower to parse).  Primitive integers are used for this decoding only. *)
Definition word_bytes (w : int) : list N :=
  let n := Z.to_N (Uint63.to_Z w) in
  [ (n / 281474976710656) mod 256; (n / 1099511627776) mod 256; (n / 4294967296) mod 256;
    (n / 16777216) mod 256; (n / 65536) mod 256; (n / 256) mod 256; n mod 256 ].
Definition B (len : N) (ws : list int) : bytes := firstn (N.to_nat len) (flat_map word_bytes ws).
Arguments B len%N ws%uint63.

(* run: completion order (indices into [results]), index into [outs], reported error hrefs
   (None = nil error; indices into [results], 9999 = a text that is no known href) *)
Definition run := (list N * N * option (list N))%type.

Inductive case :=
| CBundle (replay : bool)                        (* true: order-dependence witness, only code 1 applies *)
          (svg : bytes)
          (elig : list (bytes * bool))           (* oracle: href -> (isRemoteImg == isRemote) *)
          (started : list bytes)                 (* hrefs for which the implementation started a worker *)
          (results : list (bytes * option (bytes * bytes)))  (* href -> Some (mime, content) | None *)
          (outs : list bytes)                    (* distinct outputs *)
          (runs : list run).

Fixpoint lookup_bool (tbl : list (bytes * bool)) (h : bytes) : bool :=
  match tbl with
  | [] => false
  | (k, v) :: tbl' => if beqb h k then v else lookup_bool tbl' h
  end.

Fixpoint index_of (tbl : list (bytes * option (bytes * bytes))) (h : bytes) (i : N) : N :=
  match tbl with
  | [] => 9999
  | (k, _) :: tbl' => if beqb h k then i else index_of tbl' h (i + 1)
  end.

Definition href_at (tbl : list (bytes * option (bytes * bytes))) (i : N) : bytes :=
  match nth_error tbl (N.to_nat i) with Some (h, _) => h | None => [] end.

Definition count (x : N) (l : list N) : nat := length (filter (N.eqb x) l).
Definition perm_idx (a b : list N) : bool :=
  Nat.eqb (length a) (length b) && forallb (fun x => Nat.eqb (count x a) (count x b)) a.

Definition countb (x : bytes) (l : list bytes) : nat := length (filter (beqb x) l).
Definition perm_bytes (a b : list bytes) : bool :=
  Nat.eqb (length a) (length b) && forallb (fun x => Nat.eqb (countb x a) (countb x b)) a.

Definition err_matches (expected : list N) (reported : option (list N)) : bool :=
  match reported with
  | None => match expected with [] => true | _ => false end
  | Some l => match expected with [] => false | _ => perm_idx expected l end
  end.

Definition check_case (c : case) : list N :=
  match c with
  | CBundle replay svg elig started results outs runs =>
      let res := lookup results in
      let E := eligible svg (lookup_bool elig) in
      let Eidx := map (fun h => index_of results h 0) E in
      let rulesE := rules_of res E in
      let spec := subst rulesE svg in
      let failing := map (fun h => index_of results h 0) (errors res E) in
      let nonint := noninterf rulesE in
      (* the model's output for completion order [o].  When noninterf holds and [o] is a permutation of the
         eligible references, C46_fold_is_simultaneous + C46_noninterf_perm prove bundle svg res o = spec,
         so the fold is executed for the first run of the case only (and for every run of a replay case,
         where noninterf is false) and the proved-equal value is used for the other orders *)
      let model_out (first : bool) (o : list N) : bytes :=
        if first || replay || negb nonint || negb (perm_idx o Eidx)
        then bundle svg res (map (href_at results) o) else spec in
      let per_run (first : bool) (r : run) : list N :=
        match r with
        | (o, k, err) =>
            let oh := map (href_at results) o in
            let out := nth (N.to_nat k) outs [] in
            flag (perm_idx o Eidx) 1
            ++ flag (beqb (model_out first o) out) 1
            ++ flag (err_matches (map (fun h => index_of results h 0) (errors res oh)) err) 1
            ++ flag (err_matches failing err) 10
            ++ (if replay then [] else flag (beqb spec out) 11)
        end in
      let all_runs := match runs with
                      | [] => []
                      | r :: rs => per_run true r ++ flat_map (per_run false) rs
                      end in
      flag (perm_bytes E started) 1
      ++ (if replay then [] else flag nonint 2)
      ++ all_runs
      ++ (if replay then [] else flag (Nat.leb (length outs) 1) 12)
  end.
