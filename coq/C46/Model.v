(* C46 — lib/imgbundler: bundling images into an SVG.

   Model of imgbundler.bundle / filterImageElements / runWorkers / worker over byte lists
   ([N] values below 256):

   * [replace_all from to s]   = bytes.Replace(s, from, to, -1) for a non-empty [from]
                                 (leftmost, non-overlapping);
   * [find_hrefs svg]          = the capture groups of imageRegex.FindAllSubmatch(svg, -1) for
                                 imageRegex (opening text, a non-empty run of non-quote bytes, a quote);
   * [eligible svg elig]       = filterImageElements: first occurrences, "data:" skipped, then the
                                 remote/local test [elig] (url.Parse + html.UnescapeString: an oracle
                                 passed as data);
   * worker results            = [href -> Some (mime, content) | None] where [mime] is the
                                 Content-Type header or, when that is empty, what sniffMimeType
                                 returned (mime.TypeByExtension / http.DetectContentType: oracle);
                                 the two rewrites of the MIME type and the construction of the
                                 replacement text (opening text, data:MIME;base64,B64, closing quote) are modelled;
   * the collector             = a fold of [replace_all] over the COMPLETION ORDER [o] (the order in
                                 which the successful workers' results are received from [replc]),
                                 and the list of failed hrefs in the order the failures were recorded.

   Outside the model: goroutines, the semaphore, context time-outs, the image cache. *)
From Coq Require Import List NArith Bool Ascii.
From Coq Require String.
Import ListNotations.
Open Scope N_scope.

Definition bytes := list N.

Definition bs (s : String.string) : bytes := map N_of_ascii (String.list_ascii_of_string s).
Import String.StringSyntax.
Delimit Scope string_scope with string.
Arguments bs s%string.

Fixpoint prefixb (p s : bytes) : bool :=
  match p, s with
  | [], _ => true
  | x :: p', y :: s' => (x =? y) && prefixb p' s'
  | _ :: _, [] => false
  end.

Definition nonemptyb (p : bytes) : bool := match p with [] => false | _ => true end.

(* ---- bytes.Replace(s, from, to, -1), len(from) > 0 --------------------------------------------
   The scanner is structural in [s]: [skip] counts the bytes of a matched occurrence that are still
   to be dropped.  For [from = []] Go inserts [to] before every UTF-8 sequence; that never arises
   here (every pattern is a regex match of >= 15 bytes), the model returns [s] and [noninterf]
   below requires non-empty patterns. *)
Definition rule := (bytes * bytes)%type.

Fixpoint first_match (R : list rule) (s : bytes) : option rule :=
  match R with
  | [] => None
  | r :: R' => if prefixb (fst r) s then Some r else first_match R' s
  end.

(* simultaneous, token-wise replacement: scanning left to right, an occurrence of a pattern of [R]
   is replaced by its text and skipped, every other byte is copied *)
Fixpoint subst_go (R : list rule) (skip : nat) (s : bytes) : bytes :=
  match s with
  | [] => []
  | b :: s' =>
      match skip with
      | S k => subst_go R k s'
      | O => match first_match R s with
             | Some r => snd r ++ subst_go R (length (fst r) - 1) s'
             | None => b :: subst_go R 0 s'
             end
      end
  end.

Definition subst (R : list rule) (s : bytes) : bytes := subst_go R 0 s.

Definition replace_all (from to s : bytes) : bytes :=
  match from with [] => s | _ => subst [(from, to)] s end.

(* strings.Replace(s, from, to, 1) *)
Fixpoint replace_first (from to s : bytes) : bytes :=
  match s with
  | [] => []
  | b :: s' => if prefixb from s then to ++ skipn (length from) s else b :: replace_first from to s'
  end.

Fixpoint containsb (needle s : bytes) : bool :=
  match s with
  | [] => prefixb needle []
  | _ :: s' => prefixb needle s || containsb needle s'
  end.

(* ---- declarative reading of "replace every reference, leave every other byte unchanged" ------- *)
Inductive Subst (R : list rule) : bytes -> bytes -> Prop :=
| Subst_nil : Subst R [] []
| Subst_pat p t s s' : In (p, t) R -> Subst R s s' -> Subst R (p ++ s) (t ++ s')
| Subst_lit b s s' : (forall r, In r R -> prefixb (fst r) (b :: s) = false) ->
                     Subst R s s' -> Subst R (b :: s) (b :: s').

(* ---- the interference test ---------------------------------------------------------------------
   [clash a b]: in [a ++ z], for some [z], an occurrence of [b] can start inside [a]
   (some non-empty suffix of [a] is a prefix of [b], or [b] is a prefix of it). *)
Fixpoint clash (a b : bytes) : bool :=
  match a with
  | [] => false
  | _ :: a' => prefixb a b || prefixb b a || clash a' b
  end.

(* what the proof needs of two rules: no pattern can start inside (or straddle the end of) the other
   pattern or the other replacement text, and no replacement text can start inside the other pattern *)
Definition sep (r r' : rule) : bool :=
  negb (clash (fst r) (fst r')) && negb (clash (snd r) (fst r')) && negb (clash (fst r') (snd r)).

Fixpoint noninterf (L : list rule) : bool :=
  match L with
  | [] => true
  | r :: L' => nonemptyb (fst r) && forallb (fun r' => sep r r' && sep r' r) L' && noninterf L'
  end.

(* ---- imageRegex: opening text, non-empty run of non-quote bytes, closing quote ----------------- *)
Definition quote : N := 34.
Definition lt_sign : N := 60.
Definition img_open : bytes := Eval vm_compute in bs "<image href=""".

Fixpoint span_nq (s : bytes) : bytes * bytes :=
  match s with
  | [] => ([], [])
  | b :: s' => if b =? quote then ([], s) else let (h, r) := span_nq s' in (b :: h, r)
  end.

(* leftmost matches, continuing after each match; at a start position the only candidate is the
   maximal quote-free run after the opening text, which must be non-empty and closed by a quote *)
Fixpoint find_go (skip : nat) (s : bytes) : list bytes :=
  match s with
  | [] => []
  | _ :: s' =>
      match skip with
      | S k => find_go k s'
      | O => if prefixb img_open s then
               match span_nq (skipn (length img_open) s) with
               | ((_ :: _) as h, _ :: _) => h :: find_go (length img_open + length h) s'
               | _ => find_go 0 s'
               end
             else find_go 0 s'
      end
  end.

Definition find_hrefs (svg : bytes) : list bytes := find_go 0 svg.

Fixpoint beqb (a b : bytes) : bool :=
  match a, b with
  | [], [] => true
  | x :: a', y :: b' => (x =? y) && beqb a' b'
  | _, _ => false
  end.

Fixpoint memb (h : bytes) (l : list bytes) : bool :=
  match l with [] => false | x :: l' => beqb h x || memb h l' end.

Fixpoint dedup_go (seen : list bytes) (l : list bytes) : list bytes :=
  match l with
  | [] => []
  | h :: l' => if memb h seen then dedup_go seen l' else h :: dedup_go (h :: seen) l'
  end.

Definition data_prefix : bytes := Eval vm_compute in bs "data:".

(* filterImageElements: unique first (a "data:" href is remembered too), then the two filters *)
Definition eligible (svg : bytes) (elig : bytes -> bool) : list bytes :=
  filter (fun h => negb (prefixb data_prefix h) && elig h) (dedup_go [] (find_hrefs svg)).

(* ---- base64.StdEncoding.EncodeToString ------------------------------------------------------ *)
Definition alpha (i : N) : N :=
  if i <? 26 then 65 + i
  else if i <? 52 then 97 + (i - 26)
  else if i <? 62 then 48 + (i - 52)
  else if i =? 62 then 43            (* '+' *)
  else 47.                           (* '/' *)
Definition pad : N := 61.

Fixpoint b64std (l : bytes) : bytes :=
  match l with
  | [] => []
  | [a] => let n := a * 65536 in [alpha (n / 262144); alpha ((n / 4096) mod 64); pad; pad]
  | [a; b] => let n := a * 65536 + b * 256 in
              [alpha (n / 262144); alpha ((n / 4096) mod 64); alpha ((n / 64) mod 64); pad]
  | a :: b :: c :: r =>
      let n := a * 65536 + b * 256 + c in
      alpha (n / 262144) :: alpha ((n / 4096) mod 64) :: alpha ((n / 64) mod 64) :: alpha (n mod 64)
      :: b64std r
  end.

(* ---- worker: MIME rewrites and the replacement text ----------------------------------------- *)
Definition m_textxml : bytes := Eval vm_compute in bs "text/xml".
Definition m_svg : bytes := Eval vm_compute in bs "image/svg+xml".
Definition m_octet : bytes := Eval vm_compute in bs "application/octet-stream".
Definition s_svgtag : bytes := Eval vm_compute in bs "<svg".
Definition s_base64 : bytes := Eval vm_compute in bs ";base64,".

Definition final_mime (mime content : bytes) : bytes :=
  let m := replace_first m_textxml m_svg mime in
  if beqb m m_octet && containsb s_svgtag content then m_svg else m.

Definition pattern_of (h : bytes) : bytes := img_open ++ h ++ [quote].

Definition body_of (mime content : bytes) : bytes :=
  data_prefix ++ final_mime mime content ++ s_base64 ++ b64std content.

Definition repl_text (mime content : bytes) : bytes := img_open ++ body_of mime content ++ [quote].

Definition results := bytes -> option (bytes * bytes).   (* href -> Some (mime, content) | None *)

Definition rules_of (res : results) (o : list bytes) : list rule :=
  flat_map (fun h => match res h with
                     | Some (m, c) => [(pattern_of h, repl_text m c)]
                     | None => []
                     end) o.

(* the collector loop of runWorkers, for the completion order [o] of the workers *)
Definition fold_rules (R : list rule) (svg : bytes) : bytes :=
  fold_left (fun acc r => replace_all (fst r) (snd r) acc) R svg.

Definition bundle (svg : bytes) (res : results) (o : list bytes) : bytes :=
  fold_rules (rules_of res o) svg.

Definition errors (res : results) (o : list bytes) : list bytes :=
  filter (fun h => match res h with None => true | Some _ => false end) o.

(* results given as an association list (harness side) *)
Fixpoint lookup (tbl : list (bytes * option (bytes * bytes))) (h : bytes) : option (bytes * bytes) :=
  match tbl with
  | [] => None
  | (k, v) :: tbl' => if beqb h k then v else lookup tbl' h
  end.
