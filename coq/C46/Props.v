(* C46 — Image bundling is independent of worker scheduling and failures.  Statements only. *)
From Coq Require Import List NArith Bool Permutation.
From Coq Require String.
Import ListNotations.
Import String.StringSyntax.
Require Import V.C46.Model V.C46.Proofs.
Open Scope N_scope.

(* laws of bytes.Replace(s, from, to, -1) (leftmost, non-overlapping) for every non-empty pattern *)
Theorem C46_replace_all_laws : forall p t,
  p <> [] ->
  replace_all p t [] = [] /\
  (forall s, replace_all p t (p ++ s) = t ++ replace_all p t s) /\
  (forall b s, prefixb p (b :: s) = false -> replace_all p t (b :: s) = b :: replace_all p t s) /\
  (forall s, containsb p s = false -> replace_all p t s = s).
Proof. exact replace_all_laws. Qed.

(* the collector's fold over ANY completion order equals the simultaneous token-wise replacement *)
Theorem C46_fold_is_simultaneous : forall L, noninterf L = true -> forall s, fold_rules L s = subst L s.
Proof. exact fold_rules_subst. Qed.

(* every SVG byte string, any number of images, any two completion orders *)
Theorem C46_bundle_order_independent : forall svg res o1 o2,
  Permutation o1 o2 -> noninterf (rules_of res o1) = true -> bundle svg res o1 = bundle svg res o2.
Proof. exact bundle_order_independent. Qed.

(* the result is the unique token-wise replacement: scanning left to right every occurrence of a
   loaded reference is replaced by the data URI element of its content, every other byte is copied;
   the rules are exactly the references that were loaded *)
Theorem C46_bundle_replaces_exactly : forall svg res o,
  noninterf (rules_of res o) = true ->
  Subst (rules_of res o) svg (bundle svg res o) /\
  (forall out, Subst (rules_of res o) svg out -> out = bundle svg res o) /\
  (forall p t, In (p, t) (rules_of res o) <->
     exists h m c, In h o /\ res h = Some (m, c) /\ p = pattern_of h /\ t = repl_text m c).
Proof. exact bundle_replaces_exactly. Qed.

(* the boolean predicate Check.v evaluates on the implementation's output decides the declarative one,
   for the rules taken in any order *)
Theorem C46_spec_check_iff : forall R R' s out,
  Permutation R R' -> noninterf R = true -> (beqb (subst R s) out = true <-> Subst R' s out).
Proof. exact spec_check_any_order. Qed.

Theorem C46_errors_are_exactly_failures : forall res o,
  (forall h, In h (errors res o) <-> In h o /\ res h = None) /\
  (forall o', Permutation o o' -> Permutation (errors res o) (errors res o')).
Proof. exact errors_are_exactly_failures. Qed.

(* noninterf is invariant under the order, and holds for every well-formed run: distinct hrefs without
   less-than sign and double quote that do not start with the data: scheme, final MIME types without
   those two characters (base64 text never contains them) *)
Theorem C46_noninterf_perm : forall L L', Permutation L L' -> noninterf L = true -> noninterf L' = true.
Proof. exact noninterf_perm. Qed.

Theorem C46_wellformed_noninterf : forall res o, wellformed res o -> noninterf (rules_of res o) = true.
Proof. exact wellformed_noninterf. Qed.

Theorem C46_eligible_wellformed : forall svg elig res o,
  Permutation o (eligible svg elig) ->
  (forall h, In h o -> ~ In lt_sign h) ->
  (forall h m c, In h o -> res h = Some (m, c) -> clean (final_mime m c)) ->
  wellformed res o.
Proof. exact eligible_wellformed. Qed.

Theorem C46_bundle_order_independent_wellformed : forall svg res o1 o2,
  Permutation o1 o2 -> wellformed res o1 -> bundle svg res o1 = bundle svg res o2.
Proof. exact bundle_order_independent_wellformed. Qed.

(* the hypothesis is necessary: a Content-Type that contains another reference (W1), or an href that
   ends with the opening text of a reference (W2), makes the result depend on the order *)
Theorem C46_order_independence_refuted_without_noninterf :
  exists svg res o1 o2, Permutation o1 o2 /\ bundle svg res o1 <> bundle svg res o2.
Proof. exact order_dependent_without_noninterf. Qed.

Theorem C46_order_dependent_hostile_mime :
  noninterf (rules_of w1_res [w1_a; w1_b]) = false /\
  bundle w1_svg w1_res [w1_a; w1_b] <> bundle w1_svg w1_res [w1_b; w1_a].
Proof. exact order_dependent_mime. Qed.

Theorem C46_order_dependent_overlapping_href :
  eligible w2_svg (fun _ => true) = [w2_a; w2_b] /\
  noninterf (rules_of w2_res [w2_a; w2_b]) = false /\
  bundle w2_svg w2_res [w2_a; w2_b] <> bundle w2_svg w2_res [w2_b; w2_a].
Proof. exact order_dependent_href. Qed.

(* non-vacuity: two remote references, one loaded as PNG and one as SVG, satisfy the hypotheses *)
Example C46_noninterf_satisfiable :
  noninterf (rules_of ex_res ex_o) = true /\ length (rules_of ex_res ex_o) = 2%nat /\
  errors ex_res ex_o = [bs "http://h/missing"].
Proof. exact ex_noninterf. Qed.

Example C46_wellformed_satisfiable : wellformed ex_res ex_o.
Proof. exact ex_wellformed. Qed.

Print Assumptions C46_replace_all_laws.
Print Assumptions C46_fold_is_simultaneous.
Print Assumptions C46_bundle_order_independent.
Print Assumptions C46_bundle_replaces_exactly.
Print Assumptions C46_spec_check_iff.
Print Assumptions C46_errors_are_exactly_failures.
Print Assumptions C46_noninterf_perm.
Print Assumptions C46_wellformed_noninterf.
Print Assumptions C46_eligible_wellformed.
Print Assumptions C46_bundle_order_independent_wellformed.
Print Assumptions C46_order_independence_refuted_without_noninterf.
Print Assumptions C46_order_dependent_hostile_mime.
Print Assumptions C46_order_dependent_overlapping_href.
