(* C46 — proofs: laws of replace_all / subst, order independence of the collector under
   [noninterf], the token-wise characterisation, errors, and [noninterf] for well-formed inputs. *)
From Coq Require Import List NArith Bool Lia Permutation Arith.
Import ListNotations.
From Coq Require String.
Import String.StringSyntax.
Require Import V.C46.Model.
Open Scope N_scope.

(* ------------------------------------------------------------------ prefixes *)

Lemma prefixb_app p s : prefixb p (p ++ s) = true.
Proof. induction p as [|x p IH]; simpl; [reflexivity|]. rewrite N.eqb_refl. exact IH. Qed.

Lemma prefixb_spec p s : prefixb p s = true <-> exists r, s = p ++ r.
Proof.
  split.
  - revert s. induction p as [|x p IH]; intros s H; simpl in *.
    + exists s. reflexivity.
    + destruct s as [|y s]; [discriminate|]. apply andb_prop in H as [E H].
      apply N.eqb_eq in E. subst y. destruct (IH _ H) as [r ->]. exists r. reflexivity.
  - intros [r ->]. apply prefixb_app.
Qed.

Lemma prefixb_nil_r p : prefixb p [] = true -> p = [].
Proof. destruct p; simpl; [reflexivity|discriminate]. Qed.

Lemma prefixb_refl p : prefixb p p = true.
Proof. rewrite <- (app_nil_r p) at 2. apply prefixb_app. Qed.

(* a prefix of [u ++ z] lies inside [u] or extends [u] *)
Lemma prefixb_app_cases p u z :
  prefixb p (u ++ z) = true -> prefixb p u = true \/ prefixb u p = true.
Proof.
  revert u. induction p as [|x p IH]; intros u H; simpl in *.
  - left. reflexivity.
  - destruct u as [|y u]; simpl in *.
    + right. reflexivity.
    + apply andb_prop in H as [E H]. rewrite E. simpl.
      apply N.eqb_eq in E. subst y. rewrite N.eqb_refl. simpl. apply IH, H.
Qed.

(* two prefixes of the same string are comparable *)
Lemma prefixb_comparable p q s :
  prefixb p s = true -> prefixb q s = true -> prefixb p q = true \/ prefixb q p = true.
Proof.
  intros Hp Hq. apply prefixb_spec in Hq as [r ->]. apply prefixb_app_cases in Hp. exact Hp.
Qed.

Lemma beqb_eq a b : beqb a b = true <-> a = b.
Proof.
  revert b. induction a as [|x a IH]; intros [|y b]; simpl; split; intro H;
    try reflexivity; try discriminate.
  - apply andb_prop in H as [E H]. apply N.eqb_eq in E. apply IH in H. congruence.
  - inversion H; subst. rewrite N.eqb_refl. simpl. apply IH. reflexivity.
Qed.

(* ------------------------------------------------------------------ clash *)

Lemma clash_cons_false x a b :
  clash (x :: a) b = false ->
  prefixb (x :: a) b = false /\ prefixb b (x :: a) = false /\ clash a b = false.
Proof.
  simpl. intro H. apply orb_false_iff in H as [H H3]. apply orb_false_iff in H as [H1 H2].
  repeat split; assumption.
Qed.

Lemma clash_whole a b : a <> [] -> clash a b = false -> prefixb a b = false /\ prefixb b a = false.
Proof.
  destruct a as [|x a]; [congruence|]. intros _ H. apply clash_cons_false in H. tauto.
Qed.

(* ------------------------------------------------------------------ first_match *)

Lemma first_match_some R s r :
  first_match R s = Some r -> In r R /\ prefixb (fst r) s = true.
Proof.
  induction R as [|r0 R IH]; simpl; [discriminate|].
  destruct (prefixb (fst r0) s) eqn:E.
  - intro H. inversion H; subst. split; [left; reflexivity|exact E].
  - intro H. destruct (IH H). split; [right|]; assumption.
Qed.

Lemma first_match_none R s :
  first_match R s = None <-> (forall r, In r R -> prefixb (fst r) s = false).
Proof.
  induction R as [|r0 R IH]; simpl.
  - split; [intros _ r []|reflexivity].
  - destruct (prefixb (fst r0) s) eqn:E.
    + split; [discriminate|]. intro H. rewrite (H r0 (or_introl eq_refl)) in E. discriminate.
    + rewrite IH. split.
      * intros H r [<-|Hr]; [exact E|apply H, Hr].
      * intros H r Hr. apply H. right. exact Hr.
Qed.

Definition pats_ok (R : list rule) : Prop := forall r, In r R -> fst r <> [].

(* at most one rule matches at any position *)
Definition uniq (R : list rule) : Prop :=
  forall r1 r2 s, In r1 R -> In r2 R ->
    prefixb (fst r1) s = true -> prefixb (fst r2) s = true -> r1 = r2.

Lemma first_match_uniq R s r :
  uniq R -> In r R -> prefixb (fst r) s = true -> first_match R s = Some r.
Proof.
  intros U Hr Hp. destruct (first_match R s) as [r0|] eqn:E.
  - apply first_match_some in E as [H0 P0]. f_equal. apply (U r0 r s); assumption.
  - rewrite first_match_none in E. rewrite (E r Hr) in Hp. discriminate.
Qed.

(* ------------------------------------------------------------------ equations of subst *)

Lemma subst_go_skip R u s : subst_go R (length u) (u ++ s) = subst_go R 0 s.
Proof. induction u as [|x u IH]; simpl; [reflexivity|exact IH]. Qed.

Lemma subst_nil R : subst R [] = [].
Proof. reflexivity. Qed.

Lemma subst_match R s r :
  first_match R s = Some r -> fst r <> [] ->
  exists s2, s = fst r ++ s2 /\ subst R s = snd r ++ subst R s2.
Proof.
  intros H Hne. pose proof (first_match_some _ _ _ H) as [_ Hp].
  apply prefixb_spec in Hp as [s2 Hs]. exists s2. split; [exact Hs|].
  destruct (fst r) as [|x p] eqn:Ep; [congruence|].
  subst s. unfold subst. simpl app. cbn [subst_go]. simpl app in H. rewrite H.
  rewrite Ep. f_equal.
  replace (length (x :: p) - 1)%nat with (length p) by (simpl; lia). apply subst_go_skip.
Qed.

Lemma subst_nomatch R b s :
  first_match R (b :: s) = None -> subst R (b :: s) = b :: subst R s.
Proof. intro H. unfold subst. cbn [subst_go]. rewrite H. reflexivity. Qed.

Lemma replace_all_subst p t s : p <> [] -> replace_all p t s = subst [(p, t)] s.
Proof. destruct p; [congruence|reflexivity]. Qed.

(* the three laws of bytes.Replace(s, from, to, -1) for a non-empty [from] *)
Lemma replace_all_nil p t : replace_all p t [] = [].
Proof. destruct p; reflexivity. Qed.

Lemma replace_all_match p t s :
  p <> [] -> replace_all p t (p ++ s) = t ++ replace_all p t s.
Proof.
  intro Hne. rewrite !replace_all_subst by exact Hne.
  assert (F : first_match [(p, t)] (p ++ s) = Some (p, t)).
  { simpl. rewrite prefixb_app. reflexivity. }
  destruct (subst_match _ _ _ F Hne) as [s2 [E1 E2]]. simpl in E1, E2.
  apply app_inv_head in E1. subst s2. exact E2.
Qed.

Lemma replace_all_nomatch p t b s :
  p <> [] -> prefixb p (b :: s) = false -> replace_all p t (b :: s) = b :: replace_all p t s.
Proof.
  intros Hne H. rewrite !replace_all_subst by exact Hne. apply subst_nomatch.
  simpl first_match. cbn [fst]. rewrite H. reflexivity.
Qed.

(* the length law: every occurrence changes the length by |to| - |from| (sanity of the model) *)
Lemma replace_all_no_occurrence p t s :
  p <> [] -> containsb p s = false -> replace_all p t s = s.
Proof.
  intros Hne. induction s as [|b s IH]; intro H.
  - apply replace_all_nil.
  - simpl in H. apply orb_false_iff in H as [H1 H2].
    rewrite replace_all_nomatch by assumption. f_equal. apply IH, H2.
Qed.

(* ------------------------------------------------------------------ Lemma A: a text no rule can
   start in is copied *)

Lemma subst_copy R t z :
  (forall r, In r R -> clash t (fst r) = false) -> subst R (t ++ z) = t ++ subst R z.
Proof.
  induction t as [|b t IH]; intro H; [reflexivity|].
  simpl app. rewrite subst_nomatch.
  - f_equal. apply IH. intros r Hr. apply (clash_cons_false _ _ _ (H r Hr)).
  - apply first_match_none. intros r Hr.
    destruct (clash_cons_false _ _ _ (H r Hr)) as [H1 [H2 _]].
    destruct (prefixb (fst r) (b :: t ++ z)) eqn:E; [|reflexivity].
    change (b :: t ++ z) with ((b :: t) ++ z) in E.
    apply prefixb_app_cases in E as [E|E]; congruence.
Qed.

Lemma replace_all_copy p t u z :
  p <> [] -> clash u p = false -> replace_all p t (u ++ z) = u ++ replace_all p t z.
Proof.
  intros Hne H. rewrite !replace_all_subst by exact Hne. apply subst_copy.
  intros r [<-|[]]. exact H.
Qed.

(* Lemma C: replacing [p] by [t] does not create an occurrence of [v] at the head *)
Lemma replace_all_no_new_prefix p t v s :
  p <> [] -> clash v t = false ->
  prefixb v (replace_all p t s) = true -> prefixb v s = true.
Proof.
  intros Hne. revert v. induction s as [|b s IH]; intros v Hc H.
  - rewrite replace_all_nil in H. exact H.
  - destruct v as [|c v]; [reflexivity|].
    destruct (prefixb p (b :: s)) eqn:E.
    + apply prefixb_spec in E as [s2 E]. rewrite E in H. rewrite replace_all_match in H by exact Hne.
      apply prefixb_app_cases in H. destruct (clash_cons_false _ _ _ Hc) as [H1 [H2 _]].
      destruct H; congruence.
    + rewrite replace_all_nomatch in H by assumption. simpl in H |- *.
      apply andb_prop in H as [Hb H]. rewrite Hb. simpl. apply IH; [|exact H].
      apply (clash_cons_false _ _ _ Hc).
Qed.

(* ------------------------------------------------------------------ Claim 1: one sequential
   replacement followed by the simultaneous replacement of the others is the simultaneous
   replacement of all *)

Section Step.
  Variables (p t : bytes) (R : list rule).
  Hypothesis Hp : p <> [].
  Hypothesis HR : pats_ok R.
  Hypothesis HU : uniq R.
  Hypothesis H1 : forall r, In r R -> clash (fst r) p = false.   (* p cannot start inside p' *)
  Hypothesis H2 : forall r, In r R -> clash t (fst r) = false.   (* p' cannot start inside t *)
  Hypothesis H3 : forall r, In r R -> clash (fst r) t = false.   (* t cannot complete a p' *)

  Lemma subst_step_n n : forall s, (length s <= n)%nat ->
    subst R (replace_all p t s) = subst ((p, t) :: R) s.
  Proof.
    induction n as [|n IH]; intros s Hn.
    - destruct s; [|simpl in Hn; lia]. rewrite replace_all_nil. reflexivity.
    - destruct s as [|b s1]; [rewrite replace_all_nil; reflexivity|].
      destruct (prefixb p (b :: s1)) eqn:Ep.
      + (* an occurrence of p at the head *)
        pose proof Ep as Ep'. apply prefixb_spec in Ep' as [s2 Es]. rewrite Es.
        rewrite replace_all_match by exact Hp. rewrite subst_copy by exact H2.
        assert (F : first_match ((p, t) :: R) (p ++ s2) = Some (p, t)).
        { simpl. rewrite prefixb_app. reflexivity. }
        destruct (subst_match _ _ _ F Hp) as [s3 [E1 E2]]. simpl in E1, E2.
        apply app_inv_head in E1. subst s3. rewrite E2. f_equal. apply IH.
        assert (L : length (b :: s1) = (length p + length s2)%nat) by (rewrite Es; apply app_length).
        destruct p; [congruence|]. simpl in L, Hn. lia.
      + destruct (first_match R (b :: s1)) as [r'|] eqn:Em.
        * (* an occurrence of another pattern at the head *)
          pose proof (first_match_some _ _ _ Em) as [Hin Hpre].
          assert (F : first_match ((p, t) :: R) (b :: s1) = Some r').
          { simpl first_match. cbn [fst]. rewrite Ep. exact Em. }
          assert (Hne : fst r' <> []) by (apply HR, Hin).
          destruct (subst_match _ _ _ F Hne) as [s2 [E1 E2]]. rewrite E2.
          rewrite E1. rewrite replace_all_copy by (try exact Hp; apply H1, Hin).
          assert (F' : first_match R (fst r' ++ replace_all p t s2) = Some r').
          { apply first_match_uniq; [exact HU|exact Hin|apply prefixb_app]. }
          destruct (subst_match _ _ _ F' Hne) as [s3 [E3 E4]].
          apply app_inv_head in E3. subst s3. rewrite E4. f_equal. apply IH.
          assert (L : length (b :: s1) = (length (fst r') + length s2)%nat)
            by (rewrite E1; apply app_length).
          destruct (fst r'); [congruence|]. simpl in L, Hn. lia.
        * (* a literal byte *)
          assert (F : first_match ((p, t) :: R) (b :: s1) = None).
          { simpl first_match. cbn [fst]. rewrite Ep. exact Em. }
          rewrite (subst_nomatch _ _ _ F).
          assert (G : first_match R (replace_all p t (b :: s1)) = None).
          { apply first_match_none. intros r Hr.
            destruct (prefixb (fst r) (replace_all p t (b :: s1))) eqn:E; [|reflexivity].
            apply replace_all_no_new_prefix in E; [|exact Hp|apply H3, Hr].
            rewrite first_match_none in Em. rewrite (Em r Hr) in E. discriminate. }
          rewrite replace_all_nomatch in G |- * by assumption.
          rewrite (subst_nomatch _ _ _ G). f_equal. apply IH. simpl in Hn. lia.
  Qed.

  Lemma subst_step s : subst R (replace_all p t s) = subst ((p, t) :: R) s.
  Proof. apply (subst_step_n (length s)). lia. Qed.
End Step.

(* ------------------------------------------------------------------ noninterf: structure *)

Definition sepsym (r r' : rule) : bool := sep r r' && sep r' r.

Lemma sepsym_sym r r' : sepsym r r' = sepsym r' r.
Proof. unfold sepsym. apply andb_comm. Qed.

Lemma noninterf_cons r L :
  noninterf (r :: L) = true <->
  fst r <> [] /\ (forall r', In r' L -> sepsym r r' = true) /\ noninterf L = true.
Proof.
  simpl. rewrite !andb_true_iff, forallb_forall. unfold sepsym. split.
  - intros [[A B] C]. repeat split; try assumption.
    destruct (fst r); [discriminate|congruence].
  - intros [A [B C]]. repeat split; try assumption.
    destruct (fst r); [congruence|reflexivity].
Qed.

Lemma noninterf_cons' r L :
  noninterf (r :: L) = true <->
  fst r <> [] /\ (forall r', In r' L -> sepsym r r' = true) /\ noninterf L = true.
Proof. apply noninterf_cons. Qed.

Lemma noninterf_perm L L' : Permutation L L' -> noninterf L = true -> noninterf L' = true.
Proof.
  induction 1 as [|x l l' HP IH|x y l|l l' l'' HP1 IH1 HP2 IH2]; intro H.
  - exact H.
  - apply noninterf_cons in H as [A [B C]]. apply noninterf_cons. repeat split; auto.
    intros r' Hr. apply B. apply Permutation_sym in HP. apply (Permutation_in _ HP Hr).
  - apply noninterf_cons in H as [A [B C]]. apply noninterf_cons in C as [A' [B' C']].
    apply noninterf_cons. repeat split.
    + exact A'.
    + intros r' [<-|Hr]; [rewrite sepsym_sym; apply B; left; reflexivity|apply B', Hr].
    + apply noninterf_cons. repeat split; [exact A| |exact C'].
      intros r' Hr. apply B. right. exact Hr.
  - auto.
Qed.

Lemma noninterf_pats_ok L : noninterf L = true -> pats_ok L.
Proof.
  induction L as [|r L IH]; intros H r0 Hr; [destruct Hr|].
  apply noninterf_cons in H as [A [B C]]. destruct Hr as [<-|Hr]; [exact A|apply IH; assumption].
Qed.

Lemma sep_parts r r' : sep r r' = true ->
  clash (fst r) (fst r') = false /\ clash (snd r) (fst r') = false /\ clash (fst r') (snd r) = false.
Proof.
  unfold sep. rewrite !andb_true_iff, !negb_true_iff. tauto.
Qed.

Lemma noninterf_uniq L : noninterf L = true -> uniq L.
Proof.
  induction L as [|r L IH]; intros H r1 r2 s I1 I2 P1 P2; [destruct I1|].
  pose proof (noninterf_pats_ok _ H) as OK.
  apply noninterf_cons in H as [A [B C]].
  assert (X : forall ra rb, In rb L -> sepsym ra rb = true -> fst ra <> [] ->
              prefixb (fst ra) s = true -> prefixb (fst rb) s = true -> False).
  { intros ra rb Hb S Hne Pa Pb. unfold sepsym in S. apply andb_prop in S as [S _].
    apply sep_parts in S as [S _]. apply (clash_whole _ _ Hne) in S as [S1 S2].
    destruct (prefixb_comparable _ _ _ Pa Pb); congruence. }
  destruct I1 as [<-|I1], I2 as [<-|I2].
  - reflexivity.
  - exfalso. apply (X r r2 I2 (B _ I2) A P1 P2).
  - exfalso. apply (X r r1 I1 (B _ I1) A P2 P1).
  - apply (IH C r1 r2 s); assumption.
Qed.

(* ------------------------------------------------------------------ fold = simultaneous *)

Theorem fold_rules_subst L : noninterf L = true -> forall s, fold_rules L s = subst L s.
Proof.
  induction L as [|[p t] L IH]; intros H s.
  - unfold fold_rules, subst. simpl. induction s as [|b s IHs]; [reflexivity|].
    cbn [subst_go first_match]. f_equal. exact IHs.
  - pose proof H as H'. apply noninterf_cons in H' as [A [B C]]. cbn [fst] in A.
    unfold fold_rules. cbn [fold_left fst snd]. fold (fold_rules L (replace_all p t s)).
    rewrite (IH C). apply subst_step.
    + exact A.
    + apply noninterf_pats_ok, C.
    + apply noninterf_uniq, C.
    + intros r Hr. pose proof (B r Hr) as S. unfold sepsym in S. apply andb_prop in S as [_ S].
      apply sep_parts in S. cbn [fst snd] in S. tauto.
    + intros r Hr. pose proof (B r Hr) as S. unfold sepsym in S. apply andb_prop in S as [S _].
      apply sep_parts in S. cbn [fst snd] in S. tauto.
    + intros r Hr. pose proof (B r Hr) as S. unfold sepsym in S. apply andb_prop in S as [S _].
      apply sep_parts in S. cbn [fst snd] in S. tauto.
Qed.

Lemma first_match_perm L L' s :
  Permutation L L' -> uniq L -> first_match L s = first_match L' s.
Proof.
  intros HP U.
  assert (U' : uniq L').
  { intros r1 r2 s0 I1 I2. apply U; apply (Permutation_in _ (Permutation_sym HP)); assumption. }
  destruct (first_match L s) as [r|] eqn:E.
  - apply first_match_some in E as [I P]. symmetry. apply first_match_uniq; [exact U'| |exact P].
    apply (Permutation_in _ HP I).
  - symmetry. apply first_match_none. intros r Hr. rewrite first_match_none in E. apply E.
    apply (Permutation_in _ (Permutation_sym HP) Hr).
Qed.

Lemma subst_go_perm L L' :
  Permutation L L' -> uniq L -> forall s k, subst_go L k s = subst_go L' k s.
Proof.
  intros HP U. induction s as [|b s IH]; intro k; [reflexivity|].
  cbn [subst_go]. destruct k; [|apply IH].
  rewrite (first_match_perm _ _ (b :: s) HP U).
  destruct (first_match L' (b :: s)); rewrite IH; reflexivity.
Qed.

Theorem fold_rules_perm L L' s :
  Permutation L L' -> noninterf L = true -> fold_rules L s = fold_rules L' s.
Proof.
  intros HP H. rewrite (fold_rules_subst L H), (fold_rules_subst L' (noninterf_perm _ _ HP H)).
  apply subst_go_perm; [exact HP|apply noninterf_uniq, H].
Qed.

(* ------------------------------------------------------------------ the declarative reading *)

Lemma subst_sound_n R n : pats_ok R -> forall s, (length s <= n)%nat -> Subst R s (subst R s).
Proof.
  intro OK. induction n as [|n IH]; intros s Hn.
  - destruct s; [constructor|simpl in Hn; lia].
  - destruct s as [|b s1]; [constructor|].
    destruct (first_match R (b :: s1)) as [r|] eqn:E.
    + pose proof (first_match_some _ _ _ E) as [I P].
      destruct (subst_match _ _ _ E (OK _ I)) as [s2 [E1 E2]]. rewrite E2, E1.
      destruct r as [p t]. cbn [fst snd] in *. apply Subst_pat; [exact I|]. apply IH.
      assert (L : length (b :: s1) = (length p + length s2)%nat) by (rewrite E1; apply app_length).
      pose proof (OK _ I) as Hne. cbn [fst] in Hne. destruct p; [congruence|]. simpl in L, Hn. lia.
    + rewrite (subst_nomatch _ _ _ E). apply Subst_lit.
      * apply first_match_none, E.
      * apply IH. simpl in Hn. lia.
Qed.

Lemma subst_sound R s : pats_ok R -> Subst R s (subst R s).
Proof. intro OK. apply (subst_sound_n R (length s) OK). lia. Qed.

Lemma Subst_unique R s out : pats_ok R -> uniq R -> Subst R s out -> out = subst R s.
Proof.
  intros OK U. induction 1 as [|p t s s' I HS IH|b s s' HN HS IH].
  - reflexivity.
  - assert (F : first_match R (p ++ s) = Some (p, t)).
    { apply first_match_uniq; [exact U|exact I|apply prefixb_app]. }
    destruct (subst_match _ _ _ F (OK _ I)) as [s2 [E1 E2]]. cbn [fst snd] in *.
    apply app_inv_head in E1. subst s2. rewrite E2, IH. reflexivity.
  - rewrite subst_nomatch; [rewrite IH; reflexivity|]. apply first_match_none, HN.
Qed.

(* ------------------------------------------------------------------ rules_of / errors *)

Lemma rules_of_perm res o1 o2 : Permutation o1 o2 -> Permutation (rules_of res o1) (rules_of res o2).
Proof.
  unfold rules_of. induction 1 as [|x l l' HP IH|x y l|l l' l'' HP1 IH1 HP2 IH2]; simpl.
  - constructor.
  - apply Permutation_app_head, IH.
  - rewrite !app_assoc. apply Permutation_app_tail, Permutation_app_comm.
  - eapply Permutation_trans; eassumption.
Qed.

Lemma rules_of_In res o p t :
  In (p, t) (rules_of res o) <->
  exists h m c, In h o /\ res h = Some (m, c) /\ p = pattern_of h /\ t = repl_text m c.
Proof.
  unfold rules_of. rewrite in_flat_map. split.
  - intros [h [Hh Hin]]. destruct (res h) as [[m c]|] eqn:E; [|destruct Hin].
    destruct Hin as [Hin|[]]. inversion Hin; subst. exists h, m, c. auto.
  - intros [h [m [c [Hh [E [-> ->]]]]]]. exists h. split; [exact Hh|]. rewrite E. left. reflexivity.
Qed.

Lemma errors_In res o h : In h (errors res o) <-> In h o /\ res h = None.
Proof.
  unfold errors. rewrite filter_In. split; intros [A B]; split; try exact A.
  - destruct (res h); [discriminate|reflexivity].
  - rewrite B. reflexivity.
Qed.

Lemma errors_perm res o1 o2 : Permutation o1 o2 -> Permutation (errors res o1) (errors res o2).
Proof.
  unfold errors. induction 1 as [|x l l' HP IH|x y l|l l' l'' HP1 IH1 HP2 IH2]; simpl.
  - constructor.
  - destruct (res x); [exact IH|constructor; exact IH].
  - destruct (res x), (res y); try apply Permutation_refl. constructor.
  - eapply Permutation_trans; eassumption.
Qed.

(* ------------------------------------------------------------------ well-formed inputs satisfy
   noninterf: no less-than sign and no double quote inside hrefs and inside the data URI body *)

Definition clean (x : bytes) : Prop := ~ In lt_sign x /\ ~ In quote x.

Lemma prefixb_head x a y b : prefixb (x :: a) (y :: b) = true -> x = y.
Proof. simpl. intro H. apply andb_prop in H as [E _]. apply N.eqb_eq, E. Qed.

(* a text without '<' cannot contain the start of a text that begins with '<' *)
Lemma clash_no_lt a b : ~ In lt_sign a -> clash a (lt_sign :: b) = false.
Proof.
  induction a as [|x a IH]; intro H; [reflexivity|].
  assert (Hx : x <> lt_sign) by (intro; subst; apply H; left; reflexivity).
  cbn [clash prefixb].
  assert (E1 : (x =? lt_sign) = false) by (apply N.eqb_neq; exact Hx).
  assert (E2 : (lt_sign =? x) = false) by (apply N.eqb_neq; congruence).
  rewrite E1, E2. cbn [andb orb]. apply IH. intro K. apply H. right. exact K.
Qed.

Definition wrap (m : bytes) : bytes := img_open ++ m ++ [quote].

Lemma wrap_cons m : exists tl, wrap m = lt_sign :: tl /\ (~ In lt_sign m -> ~ In lt_sign tl).
Proof.
  unfold wrap, img_open. simpl. eexists. split; [reflexivity|].
  intros H K. simpl in K. unfold lt_sign, quote in *.
  repeat (destruct K as [K|K]; [discriminate K|]).
  apply in_app_or in K. destruct K as [K|[K|[]]]; [tauto|discriminate K].
Qed.

Lemma prefix_tail_quote m m' :
  ~ In quote m -> ~ In quote m' -> prefixb (m ++ [quote]) (m' ++ [quote]) = true -> m = m'.
Proof.
  revert m'. induction m as [|x m IH]; intros m' Hm Hm' H.
  - destruct m' as [|y m']; [reflexivity|]. cbn [app prefixb] in H. apply andb_prop in H as [E _].
    apply N.eqb_eq in E. exfalso. apply Hm'. left. symmetry. exact E.
  - destruct m' as [|y m'].
    + cbn [app prefixb] in H. apply andb_prop in H as [E _]. apply N.eqb_eq in E. exfalso. apply Hm.
      left. exact E.
    + cbn [app prefixb] in H. apply andb_prop in H as [E H]. apply N.eqb_eq in E. subst y. f_equal.
      apply IH; [intro K; apply Hm; right; exact K|intro K; apply Hm'; right; exact K|exact H].
Qed.

Lemma prefixb_app_same u a b : prefixb (u ++ a) (u ++ b) = prefixb a b.
Proof. induction u as [|x u IH]; simpl; [reflexivity|]. rewrite N.eqb_refl. exact IH. Qed.

Lemma clash_wrap m m' : clean m -> clean m' -> m <> m' -> clash (wrap m) (wrap m') = false.
Proof.
  intros [L Q] [L' Q'] Hne.
  destruct (wrap_cons m) as [tl [E T]]. destruct (wrap_cons m') as [tl' [E' _]].
  rewrite E. cbn [clash]. rewrite <- E. rewrite E' at 3. rewrite (clash_no_lt tl tl' (T L)).
  rewrite orb_false_r. apply orb_false_iff. unfold wrap. rewrite !prefixb_app_same. split.
  - destruct (prefixb (m ++ [quote]) (m' ++ [quote])) eqn:P; [|reflexivity].
    apply prefix_tail_quote in P; congruence.
  - destruct (prefixb (m' ++ [quote]) (m ++ [quote])) eqn:P; [|reflexivity].
    apply prefix_tail_quote in P; congruence.
Qed.

(* alphabet of base64.StdEncoding is clean *)
Lemma alpha_clean i : alpha i <> lt_sign /\ alpha i <> quote.
Proof.
  unfold alpha, lt_sign, quote.
  destruct (i <? 26) eqn:A; [apply N.ltb_lt in A; lia|].
  destruct (i <? 52) eqn:B; [apply N.ltb_lt in B; apply N.ltb_ge in A; lia|].
  destruct (i <? 62) eqn:C; [apply N.ltb_lt in C; apply N.ltb_ge in B; lia|].
  destruct (i =? 62); lia.
Qed.

Lemma list_ind3 {A} (P : list A -> Prop) :
  P [] -> (forall a, P [a]) -> (forall a b, P [a; b]) ->
  (forall a b c r, P r -> P (a :: b :: c :: r)) -> forall l, P l.
Proof.
  intros H0 H1 H2 H3.
  assert (K : forall l, P l /\ (forall a, P (a :: l)) /\ (forall a b, P (a :: b :: l))).
  { induction l as [|x l [I0 [I1 I2]]]; repeat split; auto. }
  intro l. apply K.
Qed.

Lemma b64std_clean l : clean (b64std l).
Proof.
  unfold clean. induction l as [| a | a b | a b c r [IH1 IH2]] using list_ind3; cbn [b64std];
    split; intro K; simpl in K;
    repeat (destruct K as [K|K];
            [first [ apply (proj1 (alpha_clean _)) in K | apply (proj2 (alpha_clean _)) in K
                   | discriminate K ]; try exact K|]);
    tauto.
Qed.

Lemma clean_app a b : clean a -> clean b -> clean (a ++ b).
Proof.
  intros [A1 A2] [B1 B2]. split; intro K; apply in_app_or in K; tauto.
Qed.

Lemma clean_const_data : clean data_prefix.
Proof. split; intro K; vm_compute in K; repeat (destruct K as [K|K]; [discriminate K|]); exact K. Qed.
Lemma clean_const_b64 : clean s_base64.
Proof. split; intro K; vm_compute in K; repeat (destruct K as [K|K]; [discriminate K|]); exact K. Qed.

Lemma body_clean m c : clean (final_mime m c) -> clean (body_of m c).
Proof.
  intro H. unfold body_of. apply clean_app; [apply clean_const_data|].
  apply clean_app; [exact H|]. apply clean_app; [apply clean_const_b64|apply b64std_clean].
Qed.

Lemma body_not_href m c h : prefixb data_prefix h = false -> body_of m c <> h.
Proof.
  intros H E. subst h. unfold body_of in H. rewrite prefixb_app in H. discriminate.
Qed.

Lemma pattern_nonempty h : pattern_of h <> [].
Proof. unfold pattern_of, img_open. discriminate. Qed.

(* hrefs [o]: distinct, clean, none starts with "data:"; final MIME types clean *)
Definition wellformed (res : results) (o : list bytes) : Prop :=
  NoDup o /\
  (forall h, In h o -> clean h /\ prefixb data_prefix h = false) /\
  (forall h m c, In h o -> res h = Some (m, c) -> clean (final_mime m c)).

Lemma sep_wrap h m c h' m' c' :
  clean h -> clean h' -> h <> h' -> prefixb data_prefix h' = false -> clean (final_mime m c) ->
  sep (pattern_of h, repl_text m c) (pattern_of h', repl_text m' c') = true.
Proof.
  intros Ch Ch' Hne Hd Cm. unfold sep. cbn [fst snd].
  change (pattern_of h) with (wrap h). change (pattern_of h') with (wrap h').
  change (repl_text m c) with (wrap (body_of m c)).
  pose proof (body_clean _ _ Cm) as Cb.
  pose proof (body_not_href m c h' Hd) as Nb.
  rewrite (clash_wrap h h'), (clash_wrap (body_of m c) h'), (clash_wrap h' (body_of m c));
    auto.
Qed.

Lemma wellformed_noninterf res o : wellformed res o -> noninterf (rules_of res o) = true.
Proof.
  intros [ND [HC HM]]. induction o as [|h o IH]; [reflexivity|].
  inversion ND as [|? ? Hnotin ND']; subst.
  assert (IH' : noninterf (rules_of res o) = true).
  { apply IH; [exact ND'|intros; apply HC; right; assumption|].
    intros h0 m c I E. apply (HM h0 m c); [right; exact I|exact E]. }
  unfold rules_of. cbn [flat_map]. fold (rules_of res o).
  destruct (res h) as [[m c]|] eqn:E; [|exact IH'].
  cbn [app]. apply noninterf_cons. repeat split.
  - apply pattern_nonempty.
  - intros [p' t'] Hr. apply rules_of_In in Hr as [h' [m' [c' [I' [E' [-> ->]]]]]].
    assert (h <> h') by (intro; subst; contradiction).
    destruct (HC h (or_introl eq_refl)) as [Ch Dh]. destruct (HC h' (or_intror I')) as [Ch' Dh'].
    unfold sepsym. rewrite !sep_wrap; auto.
    + apply (HM h' m' c'); [right; exact I'|exact E'].
    + apply (HM h m c); [left; reflexivity|exact E].
  - exact IH'.
Qed.

(* ------------------------------------------------------------------ the regex model: hrefs found
   are quote-free and non-empty; eligible hrefs are distinct and never start with "data:" *)

Lemma span_nq_noquote s h r : span_nq s = (h, r) -> ~ In quote h.
Proof.
  revert h r. induction s as [|b s IH]; intros h r H; cbn [span_nq] in H.
  - inversion H. intros [].
  - destruct (b =? quote) eqn:E.
    + inversion H. intros [].
    + destruct (span_nq s) as [h0 r0] eqn:Es. inversion H as [[Eh Er]]. intros [K|K].
      * rewrite K in E. rewrite N.eqb_refl in E. discriminate.
      * apply (IH h0 r0 eq_refl K).
Qed.

Lemma find_go_noquote s : forall k h, In h (find_go k s) -> ~ In quote h /\ h <> [].
Proof.
  induction s as [|b s IH]; intros k h H; [destruct H|].
  cbn [find_go] in H. destruct k; [|apply (IH _ _ H)].
  destruct (prefixb img_open (b :: s)); [|apply (IH _ _ H)].
  destruct (span_nq (skipn (length img_open) (b :: s))) as [h0 r0] eqn:E.
  destruct h0 as [|x h0]; [apply (IH _ _ H)|]. destruct r0; [apply (IH _ _ H)|].
  destruct H as [<-|H]; [|apply (IH _ _ H)].
  split; [apply (span_nq_noquote _ _ _ E)|discriminate].
Qed.

Lemma memb_In h l : memb h l = true <-> In h l.
Proof.
  induction l as [|x l IH]; simpl; [split; [discriminate|tauto]|].
  rewrite orb_true_iff, IH, beqb_eq. split; intros [A|A]; auto.
Qed.

Lemma dedup_go_spec seen l :
  NoDup (dedup_go seen l) /\
  (forall h, In h (dedup_go seen l) <-> In h l /\ ~ In h seen).
Proof.
  revert seen. induction l as [|x l IH]; intro seen; simpl.
  - split; [constructor|]. intro h. tauto.
  - destruct (memb x seen) eqn:E.
    + destruct (IH seen) as [ND S]. split; [exact ND|]. intro h. rewrite S.
      apply memb_In in E. split; [tauto|]. intros [[->|A] B]; tauto.
    + destruct (IH (x :: seen)) as [ND S]. split.
      * constructor; [|exact ND]. rewrite S. simpl. tauto.
      * intro h. simpl. rewrite S. simpl.
        assert (~ In x seen) by (rewrite <- memb_In; congruence).
        split.
        -- intros [<-|[A B]]; tauto.
        -- intros [[<-|A] B]; [tauto|]. destruct (list_eq_dec N.eq_dec x h); [tauto|]. right. tauto.
Qed.

Lemma NoDup_filter {A} (f : A -> bool) l : NoDup l -> NoDup (filter f l).
Proof.
  induction 1 as [|x l H ND IH]; simpl; [constructor|].
  destruct (f x); [|exact IH]. constructor; [|exact IH]. rewrite filter_In. tauto.
Qed.

Lemma eligible_spec svg elig :
  NoDup (eligible svg elig) /\
  forall h, In h (eligible svg elig) ->
    In h (find_hrefs svg) /\ ~ In quote h /\ h <> [] /\ prefixb data_prefix h = false /\ elig h = true.
Proof.
  unfold eligible. destruct (dedup_go_spec [] (find_hrefs svg)) as [ND S]. split.
  - apply NoDup_filter, ND.
  - intros h H. apply filter_In in H as [H F]. apply S in H as [H _].
    apply andb_prop in F as [F1 F2]. apply negb_true_iff in F1.
    destruct (find_go_noquote _ _ _ H). tauto.
Qed.

(* ------------------------------------------------------------------ order dependence without
   noninterf (two witnesses, replayed on the real code by the harness) *)

(* W1: a hostile Content-Type that contains another reference *)
Definition w1_a : bytes := Eval vm_compute in bs "http://h/a".
Definition w1_b : bytes := Eval vm_compute in bs "http://h/b".
Definition w1_svg : bytes := Eval vm_compute in pattern_of w1_a ++ bs "/>" ++ pattern_of w1_b ++ bs "/>".
Definition w1_res : results :=
  fun h => if beqb h w1_a then Some (bs "x""/><image href=""http://h/b"" y=""", [1; 2; 3])
           else if beqb h w1_b then Some (bs "image/png", [4; 5; 6]) else None.

Lemma order_dependent_mime :
  noninterf (rules_of w1_res [w1_a; w1_b]) = false /\
  bundle w1_svg w1_res [w1_a; w1_b] <> bundle w1_svg w1_res [w1_b; w1_a].
Proof. split; [vm_compute; reflexivity|]. vm_compute. discriminate. Qed.

(* W2: an href that ends with the opening text of a reference *)
Definition w2_a : bytes := Eval vm_compute in bs "x<image href=".
Definition w2_b : bytes := Eval vm_compute in bs "b.png".
Definition w2_svg : bytes :=
  Eval vm_compute in pattern_of w2_a ++ bs " " ++ pattern_of w2_b ++ bs " " ++ pattern_of w2_a ++ w2_b ++ [quote].
Definition w2_res : results :=
  fun h => if beqb h w2_a then Some (bs "image/png", [1; 2; 3])
           else if beqb h w2_b then Some (bs "image/png", [4; 5; 6]) else None.

Lemma order_dependent_href :
  eligible w2_svg (fun _ => true) = [w2_a; w2_b] /\
  noninterf (rules_of w2_res [w2_a; w2_b]) = false /\
  bundle w2_svg w2_res [w2_a; w2_b] <> bundle w2_svg w2_res [w2_b; w2_a].
Proof. split; [vm_compute; reflexivity|]. split; [vm_compute; reflexivity|]. vm_compute. discriminate. Qed.

(* ------------------------------------------------------------------ bundle-level statements *)

Theorem bundle_order_independent svg res o1 o2 :
  Permutation o1 o2 -> noninterf (rules_of res o1) = true ->
  bundle svg res o1 = bundle svg res o2.
Proof.
  intros HP H. unfold bundle. apply fold_rules_perm; [apply rules_of_perm, HP|exact H].
Qed.

Theorem bundle_replaces_exactly svg res o :
  noninterf (rules_of res o) = true ->
  Subst (rules_of res o) svg (bundle svg res o) /\
  (forall out, Subst (rules_of res o) svg out -> out = bundle svg res o) /\
  (forall p t, In (p, t) (rules_of res o) <->
     exists h m c, In h o /\ res h = Some (m, c) /\ p = pattern_of h /\ t = repl_text m c).
Proof.
  intro H. unfold bundle. rewrite (fold_rules_subst _ H). repeat split.
  - apply subst_sound, noninterf_pats_ok, H.
  - intros out S. apply Subst_unique; [apply noninterf_pats_ok, H|apply noninterf_uniq, H|exact S].
  - apply rules_of_In.
  - apply rules_of_In.
Qed.

Theorem errors_are_exactly_failures res o :
  (forall h, In h (errors res o) <-> In h o /\ res h = None) /\
  (forall o', Permutation o o' -> Permutation (errors res o) (errors res o')).
Proof. split; [intro h; apply errors_In|intros o' HP; apply errors_perm, HP]. Qed.

(* for the SVGs d2 itself writes (hrefs are HTML-escaped: no less-than sign) and MIME types without
   less-than sign / double quote, noninterf holds and the order never matters *)
Theorem bundle_order_independent_wellformed svg res o1 o2 :
  Permutation o1 o2 -> wellformed res o1 -> bundle svg res o1 = bundle svg res o2.
Proof. intros HP W. apply bundle_order_independent; [exact HP|apply wellformed_noninterf, W]. Qed.

Theorem order_dependent_without_noninterf :
  exists svg res o1 o2, Permutation o1 o2 /\ bundle svg res o1 <> bundle svg res o2.
Proof.
  exists w1_svg, w1_res, [w1_a; w1_b], [w1_b; w1_a]. split; [constructor|].
  apply order_dependent_mime.
Qed.

(* the completion orders of a run are the permutations of the eligible references, which are
   distinct, quote-free, non-empty and never start with the data: scheme *)
Theorem eligible_wellformed svg elig res o :
  Permutation o (eligible svg elig) ->
  (forall h, In h o -> ~ In lt_sign h) ->
  (forall h m c, In h o -> res h = Some (m, c) -> clean (final_mime m c)) ->
  wellformed res o.
Proof.
  intros HP HL HM. destruct (eligible_spec svg elig) as [ND S]. repeat split.
  - apply (Permutation_NoDup (Permutation_sym HP) ND).
  - apply HL, H.
  - apply (S h). apply (Permutation_in _ HP H).
  - apply (S h). apply (Permutation_in _ HP H).
  - apply (HM h m c H H0).
  - apply (HM h m c H H0).
Qed.

Lemma replace_all_laws p t :
  p <> [] ->
  replace_all p t [] = [] /\
  (forall s, replace_all p t (p ++ s) = t ++ replace_all p t s) /\
  (forall b s, prefixb p (b :: s) = false -> replace_all p t (b :: s) = b :: replace_all p t s) /\
  (forall s, containsb p s = false -> replace_all p t s = s).
Proof.
  intros H. repeat split; intros;
    [apply replace_all_nil|apply replace_all_match|apply replace_all_nomatch|apply replace_all_no_occurrence];
    assumption.
Qed.

(* non-vacuity: two remote references, one loaded as PNG and one as SVG (text/xml), one failing *)
Definition ex_res : results :=
  fun h => if beqb h (bs "http://h/a.png") then Some (bs "image/png", [137; 80; 78; 71])
           else if beqb h (bs "http://h/b.svg?x=1&amp;y=2") then Some (bs "text/xml", [60; 115; 118; 103; 62])
           else None.
Definition ex_o : list bytes := [bs "http://h/a.png"; bs "http://h/b.svg?x=1&amp;y=2"; bs "http://h/missing"].


Lemma ex_noninterf :
  noninterf (rules_of ex_res ex_o) = true /\ length (rules_of ex_res ex_o) = 2%nat /\
  errors ex_res ex_o = [bs "http://h/missing"].
Proof. vm_compute. repeat split. Qed.

Lemma ex_wellformed : wellformed ex_res ex_o.
Proof.
  repeat split.
  - repeat constructor; simpl; intuition discriminate.
  - destruct H as [<-|[<-|[<-|[]]]]; vm_compute; intuition discriminate.
  - destruct H as [<-|[<-|[<-|[]]]]; vm_compute; intuition discriminate.
  - destruct H as [<-|[<-|[<-|[]]]]; reflexivity.
  - destruct H as [<-|[<-|[<-|[]]]]; vm_compute in H0; inversion H0; subst; vm_compute; intuition discriminate.
  - destruct H as [<-|[<-|[<-|[]]]]; vm_compute in H0; inversion H0; subst; vm_compute; intuition discriminate.
Qed.

(* the executable predicate of Check.v decides the declarative one *)
Lemma Subst_incl R R' s out : (forall r, In r R <-> In r R') -> Subst R s out -> Subst R' s out.
Proof.
  intros HI. induction 1 as [|p t s s' I HS IH|b s s' HN HS IH].
  - constructor.
  - apply Subst_pat; [apply HI, I|exact IH].
  - apply Subst_lit; [|exact IH]. intros r Hr. apply HN, HI, Hr.
Qed.

Theorem spec_check_iff R s out :
  noninterf R = true -> (beqb (subst R s) out = true <-> Subst R s out).
Proof.
  intro H. rewrite beqb_eq. split.
  - intros <-. apply subst_sound, noninterf_pats_ok, H.
  - intro S. symmetry. apply Subst_unique; [apply noninterf_pats_ok, H|apply noninterf_uniq, H|exact S].
Qed.

Theorem spec_check_any_order R R' s out :
  Permutation R R' -> noninterf R = true -> (beqb (subst R s) out = true <-> Subst R' s out).
Proof.
  intros HP H. rewrite (spec_check_iff R s out H). split; apply Subst_incl; intro r; split; intro I.
  - apply (Permutation_in _ HP I).
  - apply (Permutation_in _ (Permutation_sym HP) I).
  - apply (Permutation_in _ (Permutation_sym HP) I).
  - apply (Permutation_in _ HP I).
Qed.
