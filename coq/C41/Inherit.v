(* C41 - inheritance between boards: a source tree (own declarations of every board) is evaluated to
   the tree of board contents; editing the own declarations of one board changes only the contents of
   that board and of the boards that inherit from it.

   Declarations are abstract (any type D, any overlay function): the theorem does not depend on what a
   declaration is or on how a board merges what it inherits with what it declares. *)
From Coq Require Import List NArith Bool.
Import ListNotations.
Require Import V.Lib.RunCases V.C38.Spec V.C38.Proofs V.C41.Tree.
Open Scope N_scope.

Section Inh.
  Variables (D : Type) (overlay : D -> D -> D) (empty : D).
  Variable (deqb : D -> D -> bool).
  Hypothesis deqb_refl : forall d, deqb d d = true.

  (* source: name, own declarations, nested layers / scenarios / steps *)
  Inductive src := Src (name : str) (own : D) (ls ss ts : list src).

  Definition sname (s : src) : str := match s with Src n _ _ _ _ => n end.

  Section SrcInd.
    Variable P : src -> Prop.
    Hypothesis H : forall n own ls ss ts, Forall P ls -> Forall P ss -> Forall P ts -> P (Src n own ls ss ts).
    Fixpoint src_ind' (s : src) : P s :=
      match s with
      | Src n own ls ss ts =>
          let go := fix go (l : list src) : Forall P l :=
                      match l with
                      | [] => Forall_nil P
                      | k :: r => Forall_cons k (src_ind' k) (go r)
                      end in
          H n own ls ss ts (go ls) (go ss) (go ts)
      end.
  End SrcInd.

  (* inh: the content the board starts from *)
  Fixpoint eval (inh : D) (s : src) : gt D :=
    match s with
    | Src n own ls ss ts =>
        let c := overlay inh own in
        GT n c
           (map (eval empty) ls)
           (map (eval c) ss)
           ((fix steps (prev : D) (l : list src) : list (gt D) :=
               match l with
               | [] => []
               | x :: r => let e := eval prev x in e :: steps (content e) r
               end) c ts)
    end.

  (* the edit: the board addressed by tgt gets the own declarations d *)
  Variable d : D.

  Fixpoint upd (tgt : option (list str)) (s : src) : src :=
    match s with
    | Src n own ls ss ts =>
        Src n (if is_target tgt then d else own)
            (map (fun x => upd (sub tgt (sname x)) x) ls)
            (map (fun x => upd (sub tgt (sname x)) x) ss)
            (map (fun x => upd (sub tgt (sname x)) x) ts)
    end.

  Definition set_own (p : list str) (s : src) : src := upd (Some p) s.

  Lemma gname_eval inh s : gname (eval inh s) = sname s.
  Proof. destruct s; reflexivity. Qed.

  Lemma sname_upd tgt s : sname (upd tgt s) = sname s.
  Proof. destruct s; reflexivity. Qed.

  (* the content of a board only depends on what it starts from and on its own declarations *)
  Lemma content_upd inh tgt s : is_target tgt = false -> content (eval inh (upd tgt s)) = content (eval inh s).
  Proof. destruct s as [n own ls ss ts]. cbn. intros ->. reflexivity. Qed.

  Lemma edit_local : forall s tgt aff inh inh',
    (aff = false -> inh = inh') ->
    chk deqb tgt aff (eval inh s) (eval inh' (upd tgt s)) = true.
  Proof.
    induction s as [n own ls ss ts IHl IHs IHt] using src_ind'. intros tgt aff inh inh' Hi.
    cbn [eval upd chk].
    set (here := aff || is_target tgt).
    set (c := overlay inh own).
    set (c' := overlay inh' (if is_target tgt then d else own)).
    assert (Hc : here = false -> c = c').
    { unfold here. intro E. apply orb_false_iff in E as [Ea Et]. unfold c, c'. rewrite Et, (Hi Ea). reflexivity. }
    rewrite str_eqb_refl. cbn [andb].
    assert (E1 : (here || deqb c c') = true).
    { destruct here; [reflexivity|]. rewrite <- (Hc eq_refl). apply deqb_refl. }
    rewrite E1. cbn [andb].
    apply andb_true_iff; split; [apply andb_true_iff; split|].
    - (* layers *)
      clear IHs IHt. induction ls as [|x r IHr]; [reflexivity|]. cbn [map].
      inversion IHl as [|? ? Hx Hr]; subst.
      rewrite gname_eval. rewrite (Hx (sub tgt (sname x)) false empty empty (fun _ => eq_refl)). cbn [andb].
      apply IHr; auto.
    - (* scenarios *)
      clear IHl IHt. induction ss as [|x r IHr]; [reflexivity|]. cbn [map].
      inversion IHs as [|? ? Hx Hr]; subst.
      rewrite gname_eval. rewrite (Hx (sub tgt (sname x)) here c c' Hc). cbn [andb].
      apply IHr; auto.
    - (* steps *)
      clear IHl IHs E1. revert Hc. generalize here c c'. clear here c c' Hi.
      induction ts as [|x r IHr]; intros here c c' Hc; [reflexivity|]. cbn [map].
      inversion IHt as [|? ? Hx Hr]; subst.
      rewrite gname_eval. rewrite (Hx (sub tgt (sname x)) here c c' Hc). cbn [andb].
      apply IHr; auto.
      intro E. apply orb_false_iff in E as [Eh Et].
      rewrite (content_upd _ _ _ Et). rewrite (Hc Eh). reflexivity.
  Qed.

  (* Editing the declarations of the board at path p: every board that is neither that board nor
     inherits from it (scenario of an affected board, first step of an affected board, step after an
     affected step) evaluates to the same content; the tree of boards keeps its shape. *)
  Theorem edit_affects_only_inheritors s p :
    chk deqb (Some p) false (eval empty s) (eval empty (set_own p s)) = true.
  Proof. apply edit_local. reflexivity. Qed.
End Inh.
