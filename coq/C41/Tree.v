(* C41 / C36 - trees of boards and the executable "only the edited board and its inheritors may change"
   test.  Definitions only.

   A diagram is a tree of boards; every board has a name, a content and three lists of nested boards
   (layers, scenarios, steps).  [gt C] is that tree for any type of content C: the harness instantiates
   C with the projection of a compiled board (object rows + connection rows, V.C37.Model), the
   inheritance model (Inherit.v) with abstract declarations.

   Which boards inherit from which (d2ir compileBoardsField / overlay):
     a layer      starts from nothing
     a scenario   starts from the content (minus nested boards) of the board that holds it
     step 1       starts from the board that holds the steps, step k+1 from step k            *)
From Coq Require Import List NArith Bool.
Import ListNotations.
Require Import V.Lib.RunCases V.C38.Spec.
Open Scope N_scope.

Inductive gt (C : Type) := GT (name : str) (c : C) (ls ss ts : list (gt C)).
Arguments GT {C}.

Definition gname {C} (t : gt C) : str := match t with GT n _ _ _ _ => n end.
Definition content {C} (t : gt C) : C := match t with GT _ c _ _ _ => c end.

(* position of the edited board relative to the current one: Some [] = this board, Some (n :: p) = below
   the nested board called n, None = elsewhere *)
Definition is_target (tgt : option (list str)) : bool := match tgt with Some [] => true | _ => false end.
Definition sub (tgt : option (list str)) (n : str) : option (list str) :=
  match tgt with
  | Some (m :: rest) => if str_eqb m n then Some rest else None
  | _ => None
  end.

Section Chk.
  Variables (C : Type) (ceqb : C -> C -> bool).

  (* same tree of boards, and every board that is neither the edited one ([tgt]) nor inherits from it
     ([aff]: the board this one starts from is affected) has the same content before (b) and after (a) *)
  Fixpoint chk (tgt : option (list str)) (aff : bool) (b a : gt C) {struct b} : bool :=
    match b, a with
    | GT nb cb lb sb tb, GT na ca la sa ta =>
        let here := aff || is_target tgt in
        str_eqb nb na && (here || ceqb cb ca)
        && (fix zl (l1 l2 : list (gt C)) : bool :=
              match l1, l2 with
              | [], [] => true
              | x :: r, y :: r' => chk (sub tgt (gname x)) false x y && zl r r'
              | _, _ => false
              end) lb la
        && (fix zs (l1 l2 : list (gt C)) : bool :=
              match l1, l2 with
              | [], [] => true
              | x :: r, y :: r' => chk (sub tgt (gname x)) here x y && zs r r'
              | _, _ => false
              end) sb sa
        && (fix zt (prev : bool) (l1 l2 : list (gt C)) : bool :=
              match l1, l2 with
              | [], [] => true
              | x :: r, y :: r' =>
                  let t := sub tgt (gname x) in
                  chk t prev x y && zt (prev || is_target t) r r'
              | _, _ => false
              end) here tb ta
    end.

  (* the two trees have the same shape (names and nesting of boards) *)
  Fixpoint same_shape (b a : gt C) {struct b} : bool :=
    match b, a with
    | GT nb _ lb sb tb, GT na _ la sa ta =>
        let z := fix z (l1 l2 : list (gt C)) : bool :=
                   match l1, l2 with
                   | [], [] => true
                   | x :: r, y :: r' => same_shape x y && z r r'
                   | _, _ => false
                   end in
        str_eqb nb na && z lb la && z sb sa && z tb ta
    end.

  (* full equality of the trees *)
  Fixpoint gt_eqb (b a : gt C) {struct b} : bool :=
    match b, a with
    | GT nb cb lb sb tb, GT na ca la sa ta =>
        let z := fix z (l1 l2 : list (gt C)) : bool :=
                   match l1, l2 with
                   | [], [] => true
                   | x :: r, y :: r' => gt_eqb x y && z r r'
                   | _, _ => false
                   end in
        str_eqb nb na && ceqb cb ca && z lb la && z sb sa && z tb ta
    end.
End Chk.
Arguments chk {C}.
Arguments same_shape {C}.
Arguments gt_eqb {C}.
