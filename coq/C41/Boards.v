(* C41 - model of d2oracle.ReplaceBoardNode / replaceBoardNodeInMap (get.go) on the AST.

   An AST map is a list of nodes; a node is a key (its key path; whether its value is a map; the nodes
   of that map) or anything else (comment, connection, import, ...).  ReplaceBoardNode(ast, ast2, path)
   looks for the board path[0] inside a `layers`, `scenarios` or `steps` container of ast (in this
   order; only the FIRST element of a key path is compared, as in the Go code), descends for the rest of
   the path, and replaces the nodes of the board's map by ast2's nodes. *)
From Coq Require Import List Arith NArith Bool Lia.
Import ListNotations.
Require Import V.Lib.RunCases V.C38.Spec V.C38.Proofs.
Open Scope N_scope.

Inductive anode := AKey (k : path) (hasmap : bool) (ns : list anode) | AOther (tag : N).

Definition w_layers : str := [108;97;121;101;114;115].
Definition w_scenarios : str := [115;99;101;110;97;114;105;111;115].
Definition w_steps : str := [115;116;101;112;115].

(* replace the first element for which f answers *)
Fixpoint upd_first {A} (f : A -> option A) (l : list A) : option (list A) :=
  match l with
  | [] => None
  | x :: r => match f x with
              | Some x' => Some (x' :: r)
              | None => option_map (cons x) (upd_first f r)
              end
  end.

(* a key whose first path element is w and whose value is a map *)
Definition map_named (w : str) (n : anode) : option (path * list anode) :=
  match n with
  | AKey (k0 :: kr) true ns => if str_eqb k0 w then Some (k0 :: kr, ns) else None
  | _ => None
  end.

Definition in_named (w : str) (inner : list anode -> option (list anode)) (n : anode) : option anode :=
  match map_named w n with
  | Some (k, ns) => option_map (AKey k true) (inner ns)
  | None => None
  end.

Definition orelse {A} (a b : option A) : option A := match a with Some _ => a | None => b end.

Section Replace.
  Variable ast2 : list anode.

  (* replaceBoardNodeInMap for one container kind *)
  Definition in_container (kind b : str) (inner : list anode -> option (list anode)) (ns : list anode)
    : option (list anode) :=
    upd_first (in_named kind (upd_first (in_named b inner))) ns.

  Fixpoint rbn (bp : list str) (ns : list anode) {struct bp} : option (list anode) :=
    match bp with
    | [] => None
    | b :: rest =>
        let inner := match rest with
                     | [] => fun _ => Some ast2
                     | _ => rbn rest
                     end in
        orelse (in_container w_layers b inner ns)
               (orelse (in_container w_scenarios b inner ns) (in_container w_steps b inner ns))
    end.

  (* ---------------------------------------------------------------- addresses *)

  (* an address names a map inside the tree: [] = the given node list, i :: a = inside the map of child i *)
  Fixpoint get_at (a : list nat) (ns : list anode) : option (list anode) :=
    match a with
    | [] => Some ns
    | i :: r => match nth_error ns i with
                | Some (AKey _ true m) => get_at r m
                | _ => None
                end
    end.

  Fixpoint set_at (a : list nat) (new : list anode) (ns : list anode) : list anode :=
    match a with
    | [] => new
    | i :: r => upd_nth i (fun n => match n with
                                    | AKey k true m => AKey k true (set_at r new m)
                                    | _ => n
                                    end) ns
    end.

  Definition is_kind (w : str) : bool := str_eqb w w_layers || str_eqb w w_scenarios || str_eqb w w_steps.

  (* the address walks container, board, container, board, ... spelling the board path *)
  Fixpoint spells (a : list nat) (bp : list str) (ns : list anode) : Prop :=
    match bp, a with
    | [], [] => True
    | b :: rest, i :: j :: a' =>
        exists kc krc m kb krb m',
          nth_error ns i = Some (AKey (kc :: krc) true m) /\ is_kind kc = true
          /\ nth_error m j = Some (AKey (kb :: krb) true m') /\ kb = b
          /\ spells a' rest m'
    | _, _ => False
    end.

  Lemma upd_first_sound {A} (f : A -> option A) : forall l l',
    upd_first f l = Some l' ->
    exists i x x', nth_error l i = Some x /\ f x = Some x' /\ l' = upd_nth i (fun _ => x') l.
  Proof.
    induction l as [|y r IH]; intros l' H; cbn [upd_first] in H; [discriminate|].
    destruct (f y) as [y'|] eqn:E.
    - injection H as <-. exists O, y, y'. cbn. auto.
    - destruct (upd_first f r) as [r'|] eqn:E2; [|discriminate]. injection H as <-.
      destruct (IH _ eq_refl) as [i [x [x' [Hn [Hf ->]]]]]. exists (S i), x, x'. cbn. auto.
  Qed.

  Lemma upd_nth_ext {A} (f g : A -> A) : forall i l x, nth_error l i = Some x -> f x = g x -> upd_nth i f l = upd_nth i g l.
  Proof.
    induction i; intros [|y r] x H E; cbn in *; try discriminate.
    - injection H as ->. rewrite E. reflexivity.
    - f_equal. eapply IHi; eauto.
  Qed.

  Lemma map_named_sound w n k ns : map_named w n = Some (k, ns) ->
    exists k0 kr, k = k0 :: kr /\ k0 = w /\ n = AKey k true ns.
  Proof.
    destruct n as [[|k0 kr] [|] m | t]; cbn [map_named]; try discriminate.
    destruct (str_eqb k0 w) eqn:E; [|discriminate]. intros [= <- <-].
    apply str_eqb_eq in E. exists k0, kr. auto.
  Qed.

  Lemma in_named_sound w inner n n' :
    in_named w inner n = Some n' ->
    exists kr m new, n = AKey (w :: kr) true m /\ inner m = Some new /\ n' = AKey (w :: kr) true new.
  Proof.
    unfold in_named. destruct (map_named w n) as [[k m]|] eqn:Em; [|discriminate].
    destruct (map_named_sound _ _ _ _ Em) as [k0 [kr [-> [-> ->]]]].
    destruct (inner m) as [new|] eqn:En; cbn [option_map]; [|discriminate]. intros [= <-].
    exists kr, m, new. auto.
  Qed.

  Lemma in_container_sound kind b inner ns ns' :
    in_container kind b inner ns = Some ns' ->
    exists i j kc m kb m' new,
      nth_error ns i = Some (AKey (kind :: kc) true m)
      /\ nth_error m j = Some (AKey (b :: kb) true m')
      /\ inner m' = Some new
      /\ ns' = upd_nth i (fun _ => AKey (kind :: kc) true (upd_nth j (fun _ => AKey (b :: kb) true new) m)) ns.
  Proof.
    unfold in_container. intro H.
    destruct (upd_first_sound _ _ _ H) as [i [x [x' [Hi [Hf ->]]]]].
    destruct (in_named_sound _ _ _ _ Hf) as [kr [m [m2 [-> [E2 ->]]]]].
    destruct (upd_first_sound _ _ _ E2) as [j [y [y' [Hj [Hg ->]]]]].
    destruct (in_named_sound _ _ _ _ Hg) as [kr2 [m' [new [-> [En ->]]]]].
    exists i, j, kr, m, kr2, m', new. auto.
  Qed.

  Lemma is_kind_words : is_kind w_layers = true /\ is_kind w_scenarios = true /\ is_kind w_steps = true.
  Proof. vm_compute. auto. Qed.

  (* Only the nodes of the map at the board path are replaced: the result is the old tree with ast2
     written at one address, and that address spells the board path through board containers. *)
  Theorem replace_board_node_local : forall bp ns ns',
    rbn bp ns = Some ns' ->
    exists a, spells a bp ns /\ get_at a ns <> None /\ ns' = set_at a ast2 ns.
  Proof.
    induction bp as [|b rest IH]; intros ns ns' H; [discriminate|].
    cbn [rbn] in H.
    set (inner := match rest with [] => fun _ => Some ast2 | _ => rbn rest end) in *.
    assert (Hk : exists kind, is_kind kind = true /\ in_container kind b inner ns = Some ns').
    { destruct is_kind_words as [K1 [K2 K3]].
      destruct (in_container w_layers b inner ns) eqn:E1; cbn [orelse] in H; [exists w_layers; split; congruence|].
      destruct (in_container w_scenarios b inner ns) eqn:E2; cbn [orelse] in H; [exists w_scenarios; split; congruence|].
      exists w_steps. split; auto. }
    destruct Hk as [kind [Kk Hc]].
    destruct (in_container_sound _ _ _ _ _ Hc) as [i [j [kc [m [kb [m' [new [Hi [Hj [Hin ->]]]]]]]]]].
    assert (Hsub : exists a', spells a' rest m' /\ get_at a' m' <> None /\ new = set_at a' ast2 m').
    { destruct rest as [|b2 rest'].
      - cbn in Hin. injection Hin as <-. exists []. cbn. repeat split; auto. discriminate.
      - apply IH. exact Hin. }
    destruct Hsub as [a' [Hs [Hg ->]]].
    exists (i :: j :: a'). split; [|split].
    - cbn [spells]. exists kind, kc, m, b, kb, m'. repeat split; auto.
    - cbn [get_at]. rewrite Hi. cbn [get_at]. rewrite Hj. exact Hg.
    - cbn [set_at].
      apply (upd_nth_ext _ _ i ns _ Hi). f_equal.
      apply (upd_nth_ext _ _ j m _ Hj). reflexivity.
  Qed.

  (* writing at an address leaves every node off that address as it is, and keeps the key of every node
     on it *)
  Lemma upd_nth_other {A} (f : A -> A) : forall i j l, i <> j -> nth_error (upd_nth i f l) j = nth_error l j.
  Proof.
    induction i; intros [|j] [|y r] D; cbn; auto; try congruence.
  Qed.

  Lemma upd_nth_same {A} (f : A -> A) : forall i l x, nth_error l i = Some x -> nth_error (upd_nth i f l) i = Some (f x).
  Proof.
    induction i; intros [|y r] x H; cbn in *; try discriminate; [congruence|auto].
  Qed.

  Theorem set_at_frames : forall i a new ns,
    (forall j, j <> i -> nth_error (set_at (i :: a) new ns) j = nth_error ns j)
    /\ length (set_at (i :: a) new ns) = length ns
    /\ (forall k hm m, nth_error ns i = Some (AKey k hm m) ->
          exists m2, nth_error (set_at (i :: a) new ns) i = Some (AKey k hm m2))
    /\ (forall t, nth_error ns i = Some (AOther t) -> nth_error (set_at (i :: a) new ns) i = Some (AOther t)).
  Proof.
    intros i a new ns. cbn [set_at]. repeat split.
    - intros j D. apply upd_nth_other. congruence.
    - clear. revert ns. induction i; intros [|y r]; cbn; auto.
    - intros k hm m H. rewrite (upd_nth_same _ _ _ _ H). destruct hm; eauto.
    - intros t H. rewrite (upd_nth_same _ _ _ _ H). reflexivity.
  Qed.
End Replace.

Definition replace_board_node (ast ast2 : list anode) (bp : list str) : bool * list anode :=
  match rbn ast2 bp ast with
  | Some ast' => (true, ast')
  | None => (false, ast)
  end.

Fixpoint anode_eqb (a b : anode) {struct a} : bool :=
  match a, b with
  | AKey k h ns, AKey k' h' ns' =>
      path_eqb k k' && Bool.eqb h h'
      && (fix z (l1 l2 : list anode) : bool :=
            match l1, l2 with
            | [], [] => true
            | x :: r, y :: r' => anode_eqb x y && z r r'
            | _, _ => false
            end) ns ns'
  | AOther t, AOther t' => t =? t'
  | _, _ => false
  end.
Definition anodes_eqb : list anode -> list anode -> bool := list_eqb anode_eqb.
