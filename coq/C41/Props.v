(* C41 - edits on a board stay within that board.  Statements only.
     rbn ast2 bp ns        model of d2oracle.ReplaceBoardNode (V.C41.Boards): Some ns' = replaced
     set_at a new ns       the node list ns with the nodes of the map at address a replaced by new
     spells a bp ns        address a walks (board container, board) pairs spelling the board path bp
     eval / set_own / chk  inheritance model (V.C41.Inherit) and the executable test of V.C41.Tree that
                           Check.v also runs on the implementation's boards before / after an edit *)
From Coq Require Import List NArith Bool.
Import ListNotations.
Require Import V.C38.Spec V.C41.Tree V.C41.Boards V.C41.Inherit.
Open Scope N_scope.

(* ReplaceBoardNode changes the AST only inside the map of the addressed board (for all trees, paths
   and replacements) ... *)
Theorem C41_replace_board_node_local :
  forall (ast2 : list anode) (bp : list str) (ns ns' : list anode),
    rbn ast2 bp ns = Some ns' ->
    exists a, spells a bp ns /\ get_at a ns <> None /\ ns' = set_at a ast2 ns.
Proof. exact replace_board_node_local. Qed.

(* ... where writing at an address keeps every sibling node, the number of nodes and the key of the node
   it passes through, at every level *)
Theorem C41_set_at_frames :
  forall i a new ns,
    (forall j, j <> i -> nth_error (set_at (i :: a) new ns) j = nth_error ns j)
    /\ length (set_at (i :: a) new ns) = length ns
    /\ (forall k hm m, nth_error ns i = Some (AKey k hm m) ->
          exists m2, nth_error (set_at (i :: a) new ns) i = Some (AKey k hm m2))
    /\ (forall t, nth_error ns i = Some (AOther t) -> nth_error (set_at (i :: a) new ns) i = Some (AOther t)).
Proof. exact set_at_frames. Qed.

(* Replacing the own declarations of the board at path p (any declarations, any way of merging inherited
   and own declarations) leaves the content of every board unchanged that is neither that board nor
   inherits from it; in particular the base board, the layers below the edited board, the sibling
   scenarios and the earlier steps. *)
Theorem C41_edit_affects_only_inheritors :
  forall (D : Type) (overlay : D -> D -> D) (empty : D) (deqb : D -> D -> bool),
    (forall d, deqb d d = true) ->
    forall (d : D) (s : src D) (p : list str),
      chk deqb (Some p) false (eval D overlay empty empty s) (eval D overlay empty empty (set_own D d p s)) = true.
Proof. exact edit_affects_only_inheritors. Qed.

(* non-vacuity: declarations = lists of numbers, overlay = append.  Editing scenario "s" (own [2] -> [9])
   changes s and its step, not the root and not the layer. *)
Definition ex_src : src (list N) :=
  Src _ [] [1] [Src _ [108] [5] [] [] []] [Src _ [115] [2] [] [] [Src _ [116] [3] [] [] []]] [].

Example C41_model_satisfiable :
  eval _ (@app N) [] [] (set_own _ [9] [[115]] ex_src)
  = GT [] [1] [GT [108] [5] [] [] []] [GT [115] [1;9] [] [] [GT [116] [1;9;3] [] [] []]] []
  /\ content (eval _ (@app N) [] [] ex_src) = [1]
  /\ rbn [AOther 7] [[120]] [AKey [w_layers] true [AKey [[120]] true [AOther 1]]; AOther 2]
     = Some [AKey [w_layers] true [AKey [[120]] true [AOther 7]]; AOther 2].
Proof. vm_compute. repeat split. Qed.

Print Assumptions C41_replace_board_node_local.
Print Assumptions C41_set_at_frames.
Print Assumptions C41_edit_affects_only_inheritors.
