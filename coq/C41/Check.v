(* Executable checker for C41 cases. *)
From Coq Require Import List NArith Bool.
Import ListNotations.
Require Import V.Lib.RunCases.
Require Export V.C38.Spec V.C37.Model V.C41.Tree V.C41.Boards.
Open Scope N_scope.

(* content of a compiled board: object rows and connection rows (V.C37.Model), compared as sets *)
Definition bcontent := (list prow * list pedge)%type.
Definition bc_eqb (a b : bcontent) : bool :=
  same_set prow_eqb (fst a) (fst b) && same_set pedge_eqb (snd a) (snd b).
Definition bt := gt bcontent.
Definition BT (n : str) (rows : list prow) (edges : list pedge) (ls ss ts : list bt) : bt :=
  GT n (rows, edges) ls ss ts.

Inductive case :=
(* one edit addressed to the board at path [board]: did it succeed; is the text of the input graph
   unchanged after the call (only looked at when the edit was refused); every board of the diagram
   before the edit and of the returned diagram (= before, when refused) *)
| KBoardEdit (board : list str) (ok : bool) (text_same : bool) (before after : bt)
(* d2oracle.ReplaceBoardNode(ast, ast2, path) on parsed text: AST before, replacement, path, result *)
| KReplace (ast ast2 : list anode) (bp : list str) (ok : bool) (result : list anode).

Definition check_case (c : case) : list N :=
  match c with
  | KBoardEdit bp ok ts b a =>
      if ok then flag (same_shape b a) 13 ++ flag (chk bc_eqb (Some bp) false b a) 10
      else flag ts 11
  | KReplace ast ast2 bp ok res =>
      let '(ok', res') := replace_board_node ast ast2 bp in
      flag (Bool.eqb ok ok' && anodes_eqb res res') 1
  end.
