(* Executable checker for C45 cases: one case = the history of one shutdown session with the real server. *)
From Coq Require Import List NArith ZArith Bool.
Import ListNotations.
Require Import V.Lib.RunCases V.C44.Model.
Require Export V.C44.Accept.
Open Scope N_scope.

Inductive case := Case (h : list obs).

Definition is_101 (o : obs) : bool := match o with ORes _ code => code =? 101 | _ => false end.
Definition is_503 (o : obs) : bool := match o with ORes _ code => code =? 503 | _ => false end.
Definition is_shutdown (o : obs) : bool := match o with OCloseCall | OCancel => true | _ => false end.

(* 10: no client is admitted after close has returned (the harness records the return only after every
       answer the server produced before it, so a 101 recorded later was produced later) *)
Fixpoint no_101_after_return_b (h : list obs) : bool :=
  match h with
  | [] => true
  | OCloseReturn _ :: r => negb (existsb is_101 r)
  | _ :: r => no_101_after_return_b r
  end.

(* 11: when close returned — and at any later census — no client handler goroutine was alive, and no request
       that was still inside handleWatch at that moment became a client afterwards *)
Definition no_handlers_at_return_b (h : list obs) : bool :=
  forallb (fun o => match o with OCloseReturn n => n =? 0 | _ => true end) h.

(* 12: nobody is turned away before shutdown has begun *)
Fixpoint no_503_before_shutdown_b (h : list obs) : bool :=
  match h with
  | [] => true
  | o :: r => if is_shutdown o then true else negb (is_503 o) && no_503_before_shutdown_b r
  end.

Definition check_with (fuel : nat) (c : case) : list N :=
  match c with
  | Case h =>
      (match accept fuel h with
       | Accepted w => flag (validate h w) 1
       | Rejected _ => [1]
       | OutOfFuel => [3]
       end)
      ++ flag (no_101_after_return_b h) 10
      ++ flag (no_handlers_at_return_b h) 11
      ++ flag (no_503_before_shutdown_b h) 12
  end.

Definition check_case (c : case) : list N := check_with (N.to_nat 300000) c.
