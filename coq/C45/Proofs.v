(* C45 — shutdown of the watch server: proofs over all reachable states of the LTS of coq/C44/Model.v. *)
From Coq Require Import List NArith ZArith Bool Lia ZifyN ZifyNat ZifyBool.
Import ListNotations.
Require Import V.C44.Model V.C44.Proofs.
Open Scope N_scope.

(* closing, cancelled and returned never go back *)
Lemma closing_stable_step s l s' : step s l = Some s' -> closing s = true -> closing s' = true.
Proof. intros H C. destruct l; step_cases H; simpl; auto; try congruence; try discriminate. Qed.

Lemma closing_stable s ls s' : run s ls = Some s' -> closing s = true -> closing s' = true.
Proof.
  revert s. induction ls as [|l r IH]; simpl; intros s H C.
  - inversion H; subst. exact C.
  - destruct (step s l) as [s1|] eqn:E; [|discriminate].
    apply (IH s1 H). apply (closing_stable_step s l s1 E C).
Qed.

Lemma run_app s l1 l2 s' :
  run s (l1 ++ l2) = Some s' -> exists s1, run s l1 = Some s1 /\ run s1 l2 = Some s'.
Proof.
  revert s. induction l1 as [|l r IH]; simpl; intros s H.
  - exists s. auto.
  - destruct (step s l) as [s1|]; [|discriminate]. apply IH. exact H.
Qed.

Lemma run_cons s l r s' :
  run s (l :: r) = Some s' -> exists s1, step s l = Some s1 /\ run s1 r = Some s'.
Proof.
  change (run s (l :: r)) with (match step s l with Some s1 => run s1 r | None => None end).
  destruct (step s l) as [s1|]; [|discriminate]. intros H. exists s1. auto.
Qed.

(* no client is admitted once shutdown has begun — state form: Admit is disabled while closing *)
Lemma thm_admit_needs_not_closing s c s' : step s (Admit c) = Some s' -> closing s = false.
Proof. intros H. step_cases H. reflexivity. Qed.

(* ... trace form: in no run does an Admit follow CloseBegin *)
Lemma thm_no_admit_after_closing l1 l2 s c :
  run init (l1 ++ CloseBegin :: l2) = Some s -> ~ In (Admit c) l2.
Proof.
  intros H Hin. apply run_app in H as [s1 [_ H]]. apply run_cons in H as [s2 [E H]].
  assert (closing s2 = true) as C2 by (step_cases E; reflexivity).
  apply in_split in Hin as [a [b ->]].
  apply run_app in H as [s3 [H3 H4]]. apply run_cons in H4 as [s4 [E4 _]].
  pose proof (closing_stable s2 a s3 H3 C2). pose proof (thm_admit_needs_not_closing s3 c s4 E4). congruence.
Qed.

(* a request that arrives while closing can only be rejected; its handler never enters the wait group *)
Lemma thm_closing_rejects s c x :
  closing s = true -> find_client c (clients s) = Some x -> c_phase x = PPending ->
  step s (Admit c) = None /\ exists s', step s (RejectH c) = Some s'.
Proof.
  intros C F P. unfold step, on_client. rewrite F, P, C. split; [reflexivity|]. eexists. reflexivity.
Qed.

(* the wait-group counter is exactly the number of client handlers between Add(1) and Done() *)
Lemma thm_wg_counts_handlers s : reachable s -> wg s = Z.of_nat (handlers (clients s)).
Proof. intros R. apply (i_wg s (inv_reachable s R)). Qed.

(* a Done() without a matching Add() would drive the counter negative (sync.WaitGroup panics) *)
Lemma thm_no_negative_wg s : reachable s -> (0 <= wg s)%Z.
Proof. intros R. rewrite (thm_wg_counts_handlers s R). lia. Qed.

(* every step that calls Done() is taken by a handler that is counted *)
Lemma thm_done_is_matched s l s' :
  reachable s -> step s l = Some s' -> (wg s' = wg s - 1)%Z ->
  exists c x, find_client c (clients s) = Some x /\ counted (c_phase x) = true /\
              (l = Res400 c \/ l = ClientExit c).
Proof.
  intros R H Hd.
  destruct l; step_cases H; simpl in Hd; try lia;
    exists c, c0; rewrite P; (split; [assumption|]); (split; [reflexivity|]); auto.
Qed.

Lemma handlers_zero l : handlers l = 0%nat -> forall x, In x l -> counted (c_phase x) = false.
Proof.
  intros H x Hx. pose proof (csum_zero _ l H x Hx) as E. simpl in E.
  destruct (counted (c_phase x)); [discriminate | reflexivity].
Qed.

(* close returns only when no handler is left *)
Lemma thm_close_returns_only_when_no_handlers s s' :
  reachable s -> step s CloseReturn = Some s' ->
  forall x, In x (clients s') -> counted (c_phase x) = false.
Proof.
  intros R H. pose proof (thm_wg_counts_handlers s R) as W.
  step_cases H. simpl. apply andb_prop in B as [_ B]. apply Z.eqb_eq in B.
  apply handlers_zero. lia.
Qed.

(* ... and none ever appears afterwards *)
Lemma thm_returned_no_handlers s :
  reachable s -> returned s = true -> forall x, In x (clients s) -> counted (c_phase x) = false.
Proof.
  intros R Hr. pose proof (inv_reachable s R) as I.
  apply handlers_zero. pose proof (i_wg s I). pose proof (i_ret_wg s I Hr). lia.
Qed.

(* Add never races with Wait: Wait starts at CloseBegin, and every Add precedes it (sync.WaitGroup's
   rule "Add with a positive delta when the counter is zero must happen before Wait") *)
Lemma thm_wait_after_all_adds s c s' :
  reachable s -> closing s = true -> step s (Admit c) = Some s' -> False.
Proof. intros _ C H. pose proof (thm_admit_needs_not_closing s c s' H). congruence. Qed.

(* no leaked handler: once closing, the server cannot come to rest before every handler has finished
   and close has returned (with thm_internal_step_decreases: it does come to rest) *)
Lemma thm_shutdown_completes s :
  reachable s -> closing s = true -> quiescent s = true ->
  returned s = true /\ forall x, In x (clients s) -> c_phase x = PDone.
Proof.
  intros R C Q0. pose proof (inv_reachable s R) as I. pose proof (quiescent_spec s Q0) as Q.
  destruct (p_closing s (i_p s I) C) as [Can _].
  assert (forall x, In x (clients s) -> c_phase x = PDone) as AllDone.
  { intros x Hx. pose proof (find_client_In _ x (i_nodup s I) Hx) as F.
    destruct (c_phase x) eqn:P; [| | | | | | |reflexivity].
    - stuck Q (RejectH (c_id x)). rewrite F, P, C. reflexivity.
    - stuck Q (Res503 (c_id x)). rewrite F, P. reflexivity.
    - destruct (c_bad x) eqn:Bd.
      + stuck Q (Res400 (c_id x)). rewrite F, P, Bd. reflexivity.
      + stuck Q (Res101 (c_id x)). rewrite F, P, Bd. reflexivity.
    - stuck Q (Register (c_id x)). rewrite F, P. reflexivity.
    - destruct (res s) as [[k v]|] eqn:RS; stuck Q (ClientRead (c_id x)); rewrite F, P, RS; reflexivity.
    - stuck Q (ClientExit (c_id x)). rewrite F, Can, P. reflexivity.
    - stuck Q (ClientExit (c_id x)). rewrite F, Can, P. reflexivity. }
  split; [|exact AllDone].
  destruct (returned s) eqn:Rt; [reflexivity|].
  assert (wg s = 0%Z) as W.
  { rewrite (i_wg s I). unfold handlers. rewrite csum_all_zero; [reflexivity|].
    intros x Hx. rewrite (AllDone x Hx). reflexivity. }
  stuck Q CloseReturn. rewrite C, Rt, W. reflexivity.
Qed.
