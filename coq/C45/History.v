(* C45 — the clauses Check.v evaluates on the implementation's history hold on every history of the model. *)
From Coq Require Import List NArith ZArith Bool Lia ZifyN ZifyNat ZifyBool.
Import ListNotations.
Require Import V.Lib.RunCases V.C44.Model V.C44.Accept V.C44.Proofs V.C44.History V.C45.Check V.C45.Proofs.
Open Scope N_scope.

(* ---- clause 11 ---- *)
Lemma handlers_at_return_app a b :
  no_handlers_at_return_b (a ++ b) = no_handlers_at_return_b a && no_handlers_at_return_b b.
Proof. unfold no_handlers_at_return_b. apply forallb_app. Qed.

Lemma obs_of_return_zero s l : no_handlers_at_return_b (obs_of s l) = true.
Proof.
  destruct l; simpl; try reflexivity. destruct (held_version s c); reflexivity.
Qed.

Lemma model_history_no_handlers ls : forall s s' os,
  project s ls = Some (s', os) -> no_handlers_at_return_b os = true.
Proof.
  induction ls as [|l r IH]; simpl; intros s s' os H.
  - inversion H. reflexivity.
  - destruct (step s l) as [s1|] eqn:St; [|discriminate].
    destruct (project s1 r) as [[sf o2]|] eqn:E; [|discriminate]. inversion H; subst.
    rewrite handlers_at_return_app, obs_of_return_zero. simpl. apply (IH s1 s' o2 E).
Qed.

(* ---- clause 10: after close has returned no upgrade succeeds ---- *)
Lemma returned_stable_step s l s' : step s l = Some s' -> returned s = true -> returned s' = true.
Proof. intros H C. destruct l; step_cases H; simpl; auto; try congruence. Qed.

Lemma no_101_when_returned ls : forall s s' os,
  Inv s -> returned s = true -> project s ls = Some (s', os) -> existsb is_101 os = false.
Proof.
  induction ls as [|l r IH]; simpl; intros s s' os I Rt H.
  - inversion H. reflexivity.
  - destruct (step s l) as [s1|] eqn:St; [|discriminate].
    destruct (project s1 r) as [[sf o2]|] eqn:E; [|discriminate]. inversion H; subst.
    rewrite existsb_app.
    rewrite (IH s1 s' o2 (inv_step s l s1 I St) (returned_stable_step s l s1 St Rt) E), orb_false_r.
    destruct l; simpl; try reflexivity; [| destruct (held_version s c); reflexivity].
    (* Res101: needs an admitted (counted) handler, but the wait group is at zero *)
    exfalso. step_cases St.
    destruct (find_client_Some _ _ _ F) as [Hx _].
    assert (1 <= handlers (clients s))%nat by (apply (handlers_pos _ c0 Hx); rewrite P; reflexivity).
    pose proof (i_wg s I). pose proof (i_ret_wg s I Rt). lia.
Qed.

Lemma no_101_cons_other o r :
  match o with OCloseReturn _ => False | _ => True end ->
  no_101_after_return_b (o :: r) = no_101_after_return_b r.
Proof. destruct o; simpl; tauto. Qed.

Lemma model_history_no_101_after_return ls : forall s s' os,
  Inv s -> project s ls = Some (s', os) -> no_101_after_return_b os = true.
Proof.
  induction ls as [|l r IH]; simpl; intros s s' os I H.
  - inversion H. reflexivity.
  - destruct (step s l) as [s1|] eqn:St; [|discriminate].
    destruct (project s1 r) as [[sf o2]|] eqn:E; [|discriminate]. inversion H; subst.
    pose proof (inv_step s l s1 I St) as I1. specialize (IH s1 s' o2 I1 E).
    destruct l; simpl; try exact IH.
    + (* ClientWrite *) destruct (held_version s c); simpl; exact IH.
    + (* CloseReturn *)
      assert (returned s1 = true) as Rt by (step_cases St; reflexivity).
      rewrite (no_101_when_returned r s1 s' o2 I1 Rt E). reflexivity.
Qed.

(* ---- clause 12: nobody is turned away before shutdown has begun ---- *)
Definition calm (s : state) : Prop :=
  close_called s = false /\ Forall (fun x => c_phase x <> PRejected) (clients s).

Lemma Forall_upd_all (P : client -> Prop) c f l :
  Forall P l -> (forall x, P x -> P (f x)) -> Forall P (upd_client c f l).
Proof.
  intros HP Hf. apply Forall_forall. intros y Hy. unfold upd_client in Hy.
  apply in_map_iff in Hy as [x [<- Hx]]. rewrite Forall_forall in HP.
  destruct (c_id x =? c); [apply Hf|]; apply HP; exact Hx.
Qed.

Lemma calm_step s l s' :
  Inv s -> calm s -> step s l = Some s' ->
  (l = CloseCall \/ l = Cancel) \/
  (calm s' /\ existsb is_503 (obs_of s l) = false /\ existsb is_shutdown (obs_of s l) = false).
Proof.
  intros I [CC NR] H.
  assert (closing s = false) as NC.
  { destruct (closing s) eqn:C; [|reflexivity]. destruct (p_closing s (i_p s I) C). congruence. }
  pose proof (i_nodup s I) as ND.
  destruct l; try (left; auto; fail); right; unfold calm, obs_of; step_cases H; simpl;
    try (destruct (held_version s _));
    try (split; [split; [assumption|] | split; reflexivity]);
    try congruence;
    try (apply Forall_upd_all; [assumption | intros y Hy; simpl; try discriminate; exact Hy]).
  - (* Attempt *) apply Forall_app. split; [assumption|]. constructor; [simpl; discriminate | constructor].
  - (* Signal *) unfold signal_all. apply Forall_forall. intros y Hy. apply in_map_iff in Hy as [x [<- Hx]].
    rewrite Forall_forall in NR. specialize (NR x Hx). destruct (registered (c_phase x)); exact NR.
  - (* Res503: there is no rejected request *)
    exfalso. rewrite Forall_forall in NR. destruct (find_client_Some _ _ _ F) as [Hx _].
    apply (NR c0 Hx). exact P.
  - (* CloseBegin needs close() to have been called *)
    exfalso. rewrite CC in B. discriminate B.
Qed.

Lemma no_503_app_calm a b :
  existsb is_503 a = false -> existsb is_shutdown a = false ->
  no_503_before_shutdown_b (a ++ b) = no_503_before_shutdown_b b.
Proof.
  induction a as [|o r IH]; simpl; [reflexivity|].
  intros H1 H2. apply orb_false_iff in H1 as [A1 A2]. apply orb_false_iff in H2 as [B1 B2].
  rewrite B1, A1. simpl. apply IH; assumption.
Qed.

Lemma model_history_no_503_before_shutdown ls : forall s s' os,
  Inv s -> calm s -> project s ls = Some (s', os) -> no_503_before_shutdown_b os = true.
Proof.
  induction ls as [|l r IH]; simpl; intros s s' os I C H.
  - inversion H. reflexivity.
  - destruct (step s l) as [s1|] eqn:St; [|discriminate].
    destruct (project s1 r) as [[sf o2]|] eqn:E; [|discriminate]. inversion H; subst.
    destruct (calm_step s l s1 I C St) as [[-> | ->] | [C1 [N5 NS]]]; try reflexivity.
    rewrite (no_503_app_calm _ _ N5 NS). apply (IH s1 s' o2 (inv_step s l s1 I St) C1 E).
Qed.

Lemma calm_init : calm init.
Proof. split; [reflexivity | constructor]. Qed.

(* ---- from the validated witness to the raw history ---- *)
Lemma flat_norm_101 h : existsb is_101 (flat_map norm_obs h) = existsb is_101 h.
Proof.
  induction h as [|o r IH]; simpl; [reflexivity|]. rewrite existsb_app, IH.
  destruct o; simpl; try reflexivity.
  destruct (code =? 101) eqn:E; simpl; [rewrite E; reflexivity|].
  destruct (code =? 503); simpl; [rewrite E|]; reflexivity.
Qed.

Lemma no_101_norm h : no_101_after_return_b (flat_map norm_obs h) = no_101_after_return_b h.
Proof.
  induction h as [|o r IH]; simpl; [reflexivity|].
  destruct o; simpl; try exact IH.
  - destruct ((code =? 101) || (code =? 503)); simpl; exact IH.
  - rewrite flat_norm_101. reflexivity.
Qed.

Lemma no_503_norm h : no_503_before_shutdown_b (flat_map norm_obs h) = no_503_before_shutdown_b h.
Proof.
  induction h as [|o r IH]; simpl; [reflexivity|].
  destruct o; simpl; rewrite ?IH; try reflexivity.
  destruct (code =? 101) eqn:E1; simpl.
  - rewrite IH. apply N.eqb_eq in E1. subst. reflexivity.
  - destruct (code =? 503) eqn:E5; simpl; rewrite ?E5, IH; reflexivity.
Qed.

Lemma accepted_history_shutdown_safe h w :
  validate h w = true ->
  no_101_after_return_b h = true /\ no_503_before_shutdown_b h = true.
Proof.
  intros V. destruct (validate_run h w V) as [ls [s P]]. split.
  - rewrite <- no_101_norm. apply (model_history_no_101_after_return ls init s _ inv_init P).
  - rewrite <- no_503_norm. apply (model_history_no_503_before_shutdown ls init s _ inv_init calm_init P).
Qed.

Lemma thm_hist_no_admission_after_return ls s os :
  project init ls = Some (s, os) -> no_101_after_return_b os = true.
Proof. exact (model_history_no_101_after_return ls init s os inv_init). Qed.

Lemma thm_hist_no_handlers_at_return ls s os :
  project init ls = Some (s, os) -> no_handlers_at_return_b os = true.
Proof. exact (model_history_no_handlers ls init s os). Qed.

Lemma thm_hist_no_rejection_before_shutdown ls s os :
  project init ls = Some (s, os) -> no_503_before_shutdown_b os = true.
Proof. exact (model_history_no_503_before_shutdown ls init s os inv_init calm_init). Qed.
