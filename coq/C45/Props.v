(* C45 — Watch server shutdown waits for every client and admits none afterwards.  Statements only.
   Model: the LTS of coq/C44/Model.v (handleWatch / close of d2cli/watch.go: closing flag and
   wsclientsWG under wsclientsMu).  Any number of clients and requests, every interleaving. *)
From Coq Require Import List NArith ZArith Bool.
Import ListNotations.
Require Import V.C44.Model V.C44.Accept V.C44.Proofs V.C44.Shape V.C45.Check V.C45.Proofs V.C45.History.
Open Scope N_scope.

(* No client is admitted once shutdown has begun: in no run does an Admit (wsclientsWG.Add(1) in
   handleWatch) follow CloseBegin (w.closing = true in close). *)
Theorem C45_no_admit_after_closing :
  forall l1 l2 s c, run init (l1 ++ CloseBegin :: l2) = Some s -> ~ In (Admit c) l2.
Proof. exact thm_no_admit_after_closing. Qed.

(* ... a request that reaches handleWatch while closing can only be rejected (503). *)
Theorem C45_closing_rejects :
  forall s c x, closing s = true -> find_client c (clients s) = Some x -> c_phase x = PPending ->
    step s (Admit c) = None /\ exists s', step s (RejectH c) = Some s'.
Proof. exact thm_closing_rejects. Qed.

(* The wait-group counter always equals the number of client handlers between Add(1) and Done(). *)
Theorem C45_wg_counts_handlers :
  forall s, reachable s -> wg s = Z.of_nat (handlers (clients s)).
Proof. exact thm_wg_counts_handlers. Qed.

(* It never goes negative (sync.WaitGroup would panic), and every Done() is taken by a counted handler. *)
Theorem C45_no_negative_wg : forall s, reachable s -> (0 <= wg s)%Z.
Proof. exact thm_no_negative_wg. Qed.

Theorem C45_done_is_matched :
  forall s l s', reachable s -> step s l = Some s' -> (wg s' = wg s - 1)%Z ->
    exists c x, find_client c (clients s) = Some x /\ counted (c_phase x) = true /\
                (l = Res400 c \/ l = ClientExit c).
Proof. exact thm_done_is_matched. Qed.

(* close() returns only when no client handler is left, and none exists ever after. *)
Theorem C45_close_returns_only_when_no_handlers :
  forall s s', reachable s -> step s CloseReturn = Some s' ->
    forall x, In x (clients s') -> counted (c_phase x) = false.
Proof. exact thm_close_returns_only_when_no_handlers. Qed.

Theorem C45_returned_no_handlers :
  forall s, reachable s -> returned s = true ->
    forall x, In x (clients s) -> counted (c_phase x) = false.
Proof. exact thm_returned_no_handlers. Qed.

(* No leaked handler / no hang: once closing, the server cannot come to rest (no step of its own enabled)
   before every handler has finished and close() has returned; with C44_internal_step_decreases (every own
   step lowers a natural-number measure) it does come to rest. *)
Theorem C45_shutdown_completes :
  forall s, reachable s -> closing s = true -> quiescent s = true ->
    returned s = true /\ forall x, In x (clients s) -> c_phase x = PDone.
Proof. exact thm_shutdown_completes. Qed.

(* The clauses Check.v evaluates on the implementation's history hold on every history of the model ... *)
Theorem C45_model_histories_no_admission_after_return :
  forall ls s os, project init ls = Some (s, os) -> no_101_after_return_b os = true.
Proof. exact thm_hist_no_admission_after_return. Qed.

Theorem C45_model_histories_no_handlers_at_return :
  forall ls s os, project init ls = Some (s, os) -> no_handlers_at_return_b os = true.
Proof. exact thm_hist_no_handlers_at_return. Qed.

Theorem C45_model_histories_no_rejection_before_shutdown :
  forall ls s os, project init ls = Some (s, os) -> no_503_before_shutdown_b os = true.
Proof. exact thm_hist_no_rejection_before_shutdown. Qed.

(* ... hence on every history the checker's trace-inclusion test accepts. *)
Theorem C45_accepted_history_safe :
  forall h w, validate h w = true ->
    no_101_after_return_b h = true /\ no_503_before_shutdown_b h = true.
Proof. exact accepted_history_shutdown_safe. Qed.

(* The shape of the current handleWatch/close (regenerated into coq/Gen/WatchShape.v on every run) is the
   one the model transcribes: closing test and wsclientsWG.Add(1) in one wsclientsMu critical section and
   before the upgrade, Done on a failed upgrade and as the handler's last deferred call, closing set under
   the same mutex, close ends with wsclientsWG.Wait(). *)
Theorem C45_code_shape_as_modelled : shape_c45.
Proof. exact watch_shape_c45. Qed.

(* non-vacuity: a shutdown racing with two upgrades — one admitted before closing, one rejected — and an
   established client; close returns after both handlers are gone *)
Definition example_shutdown : list label :=
  [Attempt 1 false; Admit 1; Res101 1; Register 1; ClientRead 1;
   Attempt 2 false; Attempt 3 false; CloseCall; Admit 2; CloseBegin; RejectH 3; Res503 3; Res101 2;
   Register 2; ClientRead 2; ClientExit 1; ClientExit 2; CloseReturn].

Example C45_shutdown_satisfiable :
  exists s, run init example_shutdown = Some s /\ closing s = true /\ returned s = true /\
            quiescent s = false (* the compile loop may still run *) /\ wg s = 0%Z.
Proof. eexists. split; [vm_compute; reflexivity|]. vm_compute. repeat split. Qed.

Example C45_wg_satisfiable :
  exists s, run init [Attempt 1 false; Admit 1; Attempt 2 true; Admit 2; Res400 2] = Some s /\ wg s = 1%Z.
Proof. eexists. split; vm_compute; reflexivity. Qed.

Example C45_closing_rejects_satisfiable :
  exists s x, run init [Attempt 1 false; CloseCall; CloseBegin] = Some s /\ closing s = true /\
              find_client 1 (clients s) = Some x /\ c_phase x = PPending.
Proof. eexists. eexists. split; [vm_compute; reflexivity|]. vm_compute. repeat split. Qed.

Example C45_quiescent_closing_satisfiable :
  exists s, run init [TakeToken; ReadFile; Store; Signal; CloseCall; CloseBegin; CloseReturn] = Some s /\
            closing s = true /\ quiescent s = true.
Proof. eexists. split; [vm_compute; reflexivity|]. vm_compute. split; reflexivity. Qed.

Example C45_validate_satisfiable :
  let h := [OAttempt 1 false; ORes 1 101; OAttempt 2 false; OCloseCall; ORes 2 503; ODisconnect 1; OCloseReturn 0] in
  match accept 1000 h with Accepted w => validate h w = true | _ => False end.
Proof. vm_compute. reflexivity. Qed.

Print Assumptions C45_no_admit_after_closing.
Print Assumptions C45_closing_rejects.
Print Assumptions C45_wg_counts_handlers.
Print Assumptions C45_no_negative_wg.
Print Assumptions C45_done_is_matched.
Print Assumptions C45_close_returns_only_when_no_handlers.
Print Assumptions C45_returned_no_handlers.
Print Assumptions C45_shutdown_completes.
Print Assumptions C45_model_histories_no_admission_after_return.
Print Assumptions C45_model_histories_no_handlers_at_return.
Print Assumptions C45_model_histories_no_rejection_before_shutdown.
Print Assumptions C45_accepted_history_safe.
Print Assumptions C45_code_shape_as_modelled.
