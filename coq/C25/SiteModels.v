(* C25 — fold models of the map-range loops of the render path and their order (in)sensitivity.
   A Go `for k, v := range m` visits the entries of m in an unspecified order: the loop is a fold over
   SOME permutation of the entry list, whose keys are pairwise distinct. *)
From Coq Require Import List ZArith NArith Bool Arith Lia Permutation Sorted.
Import ListNotations.
Require Import V.C25.Model V.C25.Proofs.
Open Scope Z_scope.

(* ------------------------------------------------------------------ generic: distinct keys *)
Section DistinctKeys.
  Variables K V S : Type.
  Variable body : S -> K * V -> S.
  (* iterations on different keys commute (two iterations never have the same key: map keys are distinct) *)
  Hypothesis comm : forall s e1 e2, fst e1 <> fst e2 -> body (body s e1) e2 = body (body s e2) e1.

  Lemma loop_distinct_keys_perm l1 l2 :
    Permutation l1 l2 -> NoDup (map fst l1) -> forall s, loop K V S body l1 s = loop K V S body l2 s.
  Proof.
    unfold loop. intro P. induction P; intros ND s; simpl; auto.
    - inversion ND; subst. apply IHP. assumption.
    - inversion ND as [|? ? Hn ND']; subst. rewrite comm; auto.
      intro E. apply Hn. left. symmetry. exact E.
    - rewrite IHP1 by assumption. apply IHP2.
      eapply Permutation_NoDup; [apply Permutation_map; exact P1 | exact ND].
  Qed.
End DistinctKeys.

(* a Go map / a set of per-object fields as a vector of slots *)
Fixpoint upd {A} (k : nat) (f : A -> A) (l : list A) : list A :=
  match l, k with
  | [], _ => []
  | x :: xs, O => f x :: xs
  | x :: xs, S k' => x :: upd k' f xs
  end.

Lemma upd_comm_ne {A} (f g : A -> A) : forall l k k', k <> k' -> upd k f (upd k' g l) = upd k' g (upd k f l).
Proof.
  induction l as [|x xs IH]; intros k k' H; [destruct k, k'; reflexivity|].
  destruct k, k'; simpl; try reflexivity; [congruence|]. f_equal. apply IH. congruence.
Qed.

Lemma upd_comm_same {A} (f g : A -> A) :
  (forall x, f (g x) = g (f x)) -> forall l k k', upd k f (upd k' g l) = upd k' g (upd k f l).
Proof.
  intros C l. induction l as [|x xs IH]; intros k k'; [destruct k, k'; reflexivity|].
  destruct k, k'; simpl; try reflexivity; [rewrite C; reflexivity | f_equal; apply IH].
Qed.

(* ------------------------------------------------------------------ sites 1-4: adjustCrossRankSpacing
   for o := range increased { prevMarginX[o] = math.Max(prevMarginX[o], margin.X) }   (c loop-invariant) *)
Definition s_margin_body (c : Z) (s : list Z) (e : nat * unit) : list Z := upd (fst e) (Z.max c) s.

Lemma s_margin_order_insensitive c l1 l2 s :
  Permutation l1 l2 -> loop _ _ _ (s_margin_body c) l1 s = loop _ _ _ (s_margin_body c) l2 s.
Proof.
  intro P. apply loop_commutes_perm; [|exact P].
  intros s0 e1 e2. unfold s_margin_body. apply upd_comm_same. intro x. lia.
Qed.

(* ------------------------------------------------------------------ site 7: getRanks
   for l := range alignedObjects { levels = append(levels, l) }; sort.Slice(levels, <) *)
Lemma s_getranks_order_insensitive (keys keys' : list Z) :
  NoDup keys -> Permutation keys keys' -> ssort Z.ltb keys = ssort Z.ltb keys'.
Proof.
  apply collect_then_sort_order_insensitive.
  - intro a. apply Z.ltb_irrefl.
  - intros a b c. rewrite !Z.ltb_lt. lia.
  - intros a b. rewrite !Z.ltb_ge. lia.
Qed.

(* ------------------------------------------------------------------ sites 9-10: shiftReachableDown
   for obj := range shifted/grown { movedObjects = append(movedObjects, obj) }; then for every moved:
   counts := !exists other != moved with <geometric predicate>;  if counts { increasedMargins[moved] = {} } *)
Definition s_counts (pred : nat -> nat -> bool) (moved : list nat) (m : nat) : bool :=
  negb (existsb (fun o => negb (Nat.eqb o m) && pred o m) moved).

Lemma existsb_perm {A} (p : A -> bool) l1 l2 : Permutation l1 l2 -> existsb p l1 = existsb p l2.
Proof.
  intro P. induction P; simpl; auto.
  - rewrite IHP. reflexivity.
  - destruct (p x), (p y); reflexivity.
  - congruence.
Qed.

Lemma s_counts_order_insensitive pred l1 l2 m : Permutation l1 l2 -> s_counts pred l1 m = s_counts pred l2 m.
Proof. intro P. unfold s_counts. f_equal. apply existsb_perm. exact P. Qed.

(* ------------------------------------------------------------------ site 11: d2elklayout.Layout
   for k, ports := range ports { spacing := width(k)/(len(ports)+1); for i, p := range ports { p.X = (i+1)*spacing } }
   every port belongs to exactly one entry: an iteration writes only the slots of its own key *)
Definition s_ports_body (val : nat -> Z -> Z) (s : list Z) (e : nat * Z) : list Z :=
  upd (fst e) (fun _ => val (fst e) (snd e)) s.

Lemma s_ports_order_insensitive val l1 l2 s :
  Permutation l1 l2 -> NoDup (map fst l1) ->
  loop _ _ _ (s_ports_body val) l1 s = loop _ _ _ (s_ports_body val) l2 s.
Proof.
  intros P ND. apply loop_distinct_keys_perm; auto.
  intros s0 e1 e2 H. unfold s_ports_body. apply upd_comm_ne. auto.
Qed.

(* ------------------------------------------------------------------ site 12: childrenMaxSelfLoop
   for _, ch := range parent.Children { ... max = go2.Max(max, dim(ch)) } *)
Definition s_max_body (dim : nat -> Z) (s : Z) (e : nat * unit) : Z := Z.max s (dim (fst e)).

Lemma s_max_order_insensitive dim l1 l2 s :
  Permutation l1 l2 -> loop _ _ _ (s_max_body dim) l1 s = loop _ _ _ (s_max_body dim) l2 s.
Proof. intro P. apply loop_commutes_perm; [|exact P]. intros s0 e1 e2. unfold s_max_body. lia. Qed.

(* ------------------------------------------------------------------ site 13: ExtractSubgraph
   for k := range container.Children { delete(container.Children, k) } *)
Definition s_delete_body (s : list nat) (e : nat * unit) : list nat :=
  filter (fun x => negb (Nat.eqb x (fst e))) s.

Lemma s_delete_order_insensitive l1 l2 s :
  Permutation l1 l2 -> loop _ _ _ s_delete_body l1 s = loop _ _ _ s_delete_body l2 s.
Proof.
  intro P. apply loop_commutes_perm; [|exact P]. intros s0 e1 e2. unfold s_delete_body.
  induction s0 as [|x xs IH]; simpl; auto.
  destruct (Nat.eqb x (fst e1)) eqn:E1, (Nat.eqb x (fst e2)) eqn:E2; simpl; rewrite ?E1, ?E2; simpl;
    rewrite ?IH; reflexivity.
Qed.

(* ------------------------------------------------------------------ sites 14, 16: styleToSVG, NewAtlas
   for t := range chroma.StandardTypes { if !zero(style.Get(t)) { converted[t] = f(t) } }
   for r, fg := range fixedMapping { mapping[r] = g(fg) }
   a fresh map is filled: one write per distinct key, the value a function of the entry alone *)
Definition s_fill_body (f : nat -> Z -> option Z) (s : list (option Z)) (e : nat * Z) : list (option Z) :=
  match f (fst e) (snd e) with
  | Some v => upd (fst e) (fun _ => Some v) s
  | None => s
  end.

Lemma s_fill_order_insensitive f l1 l2 s :
  Permutation l1 l2 -> NoDup (map fst l1) ->
  loop _ _ _ (s_fill_body f) l1 s = loop _ _ _ (s_fill_body f) l2 s.
Proof.
  intros P ND. apply loop_distinct_keys_perm; auto. intros s0 e1 e2 H. unfold s_fill_body.
  destruct (f (fst e1) (snd e1)), (f (fst e2) (snd e2)); try reflexivity. apply upd_comm_ne. auto.
Qed.

(* ------------------------------------------------------------------ site 15: d2target.init
   for k, v := range DSL_SHAPE_TO_SHAPE_TYPE { SHAPE_TYPE_TO_DSL_SHAPE[v] = k }
   SHAPE_TYPE_TO_DSL_SHAPE[shape.SQUARE_TYPE] = ShapeRectangle
   the inverse map is written at the VALUES, which are not distinct; the only duplicated value is
   SQUARE_TYPE, whose slot is overwritten after the loop (side condition checked on the real table) *)
Definition s_inv_body (s : list nat) (e : nat * nat) : list nat := upd (snd e) (fun _ => fst e) s.
Definition s_inverse (sq rect : nat) (l : list (nat * nat)) (s : list nat) : list nat :=
  upd sq (fun _ => rect) (loop _ _ _ s_inv_body l s).

Definition swap (e : nat * nat) : nat * nat := (snd e, fst e).

Lemma upd_const_absorb {A} (a b : A) : forall l k, upd k (fun _ => a) (upd k (fun _ => b) l) = upd k (fun _ => a) l.
Proof. induction l as [|x xs IH]; intros [|k]; simpl; auto. f_equal. apply IH. Qed.

Lemma s_inv_loop_comm sq k : forall l s,
  (forall e, In e l -> snd e <> sq) ->
  loop _ _ _ s_inv_body l (upd sq (fun _ => k) s) = upd sq (fun _ => k) (loop _ _ _ s_inv_body l s).
Proof.
  unfold loop. induction l as [|e l IH]; intros s H; simpl; auto.
  unfold s_inv_body at 2. rewrite upd_comm_ne by (apply H; left; auto).
  rewrite IH by (intros; apply H; right; auto). reflexivity.
Qed.

Lemma s_inverse_erase sq rect : forall l s,
  s_inverse sq rect l s = s_inverse sq rect (filter (fun e => negb (Nat.eqb (snd e) sq)) l) s.
Proof.
  unfold s_inverse, loop. induction l as [|e l IH]; intro s; simpl; auto.
  destruct (Nat.eqb (snd e) sq) eqn:E; simpl.
  - apply Nat.eqb_eq in E. rewrite IH. unfold s_inv_body at 2. rewrite E.
    change (fold_left s_inv_body ?l ?s) with (loop _ _ _ s_inv_body l s).
    rewrite s_inv_loop_comm.
    + apply upd_const_absorb.
    + intros e' He. apply filter_In in He. destruct He as [_ He]. apply negb_true_iff in He.
      apply Nat.eqb_neq. exact He.
  - apply IH.
Qed.

Lemma perm_filter {A} (p : A -> bool) l1 l2 : Permutation l1 l2 -> Permutation (filter p l1) (filter p l2).
Proof.
  intro P. induction P; simpl; auto.
  - destruct (p x); auto.
  - destruct (p x), (p y); auto. apply perm_swap.
  - eapply Permutation_trans; eauto.
Qed.

Lemma s_inverse_order_insensitive sq rect l1 l2 s :
  Permutation l1 l2 ->
  NoDup (map snd (filter (fun e => negb (Nat.eqb (snd e) sq)) l1)) ->   (* only sq is duplicated *)
  s_inverse sq rect l1 s = s_inverse sq rect l2 s.
Proof.
  intros P ND. rewrite (s_inverse_erase sq rect l1), (s_inverse_erase sq rect l2).
  unfold s_inverse. f_equal.
  set (p := fun e : nat * nat => negb (Nat.eqb (snd e) sq)) in *.
  assert (Hl : forall l s0, loop _ _ _ s_inv_body l s0
                          = loop nat nat _ (fun s e => upd (fst e) (fun _ => snd e) s) (map swap l) s0).
  { unfold loop. induction l as [|e l IH]; intro s0; simpl; auto. }
  rewrite !Hl. apply loop_distinct_keys_perm.
  - intros s0 e1 e2 H. apply upd_comm_ne. auto.
  - apply Permutation_map. apply perm_filter. exact P.
  - rewrite map_map. simpl. exact ND.
Qed.

(* ------------------------------------------------------------------ sites 5-6: adjustRankSpacing  (ORDER-SENSITIVE)
   for ancestor := range startingAncestorPositions { order = append(order, ancestor) }
   sort.Slice(order, func(i, j) { return pos[order[i]] < pos[order[j]] })
   for _, ancestor := range order { <reads the current geometry, grows containers, shifts objects> }
   the comparator looks at the VALUE only: ancestors with equal positions stay in map order, and the
   adjustments that follow do not commute *)
Definition s_rank_order (entries : list (nat * Z)) : list nat :=
  map fst (ssort (fun a b => snd a <? snd b) entries).

Lemma s_rank_spacing_order_sensitive :
  exists (l1 l2 : list (nat * Z)) (op : nat -> Z -> Z),
    Permutation l1 l2 /\ NoDup (map fst l1) /\
    fold_left (fun s k => op k s) (s_rank_order l1) 10 <> fold_left (fun s k => op k s) (s_rank_order l2) 10.
Proof.
  exists [(0%nat, 5); (1%nat, 5)], [(1%nat, 5); (0%nat, 5)],
         (fun k s => match k with O => s + 1 | _ => 2 * s end).
  split; [apply perm_swap | split].
  - repeat constructor; simpl; intuition discriminate.
  - vm_compute. discriminate.
Qed.

(* ------------------------------------------------------------------ site 8: shiftReachableDown  (ORDER-SENSITIVE)
   for o := range seen { ... grow ancestors of o ...; checkBelow(parent); processQueue() /* adds to seen */ }
   entries added to a map during a range "may be produced during the iteration or may be skipped"
   (Go specification): [visit_new] is that choice.  [step o] = (new entries produced by visiting o, effect) *)
Fixpoint s_range_growing (fuel : nat) (visit_new : bool) (step : nat -> list nat * Z)
         (todo : list nat) (acc : Z) : Z :=
  match fuel, todo with
  | O, _ => acc
  | _, [] => acc
  | S f, o :: rest =>
      let '(added, eff) := step o in
      s_range_growing f visit_new step (if visit_new then rest ++ added else rest) (acc + eff)
  end.

Lemma s_range_over_growing_map_order_sensitive :
  exists (step : nat -> list nat * Z) (seen : list nat),
    s_range_growing 10 true step seen 0 <> s_range_growing 10 false step seen 0.
Proof.
  exists (fun o => match o with O => ([1%nat], 0) | _ => ([], 31) end), [0%nat].
  vm_compute. discriminate.
Qed.

(* ------------------------------------------------------------------ site 17: replaceVariables  (ORDER-SENSITIVE)
   for k, v := range vars { s = strings.ReplaceAll(s, "${"+k+"}", v) }
   text inserted by one replacement is scanned by the following ones *)
Inductive tok := Lit (n : nat) | Var (k : nat).
Definition s_replace (s : list tok) (e : nat * list tok) : list tok :=
  flat_map (fun t => match t with Var k => if Nat.eqb k (fst e) then snd e else [t] | Lit _ => [t] end) s.

Lemma s_replace_variables_order_sensitive :
  exists (l1 l2 : list (nat * list tok)) (s : list tok),
    Permutation l1 l2 /\ NoDup (map fst l1) /\
    loop _ _ _ s_replace l1 s <> loop _ _ _ s_replace l2 s.
Proof.
  (* vars: {a: '${b}'; b: hello}   text: ${a} *)
  exists [(0%nat, [Var 1]); (1%nat, [Lit 7])], [(1%nat, [Lit 7]); (0%nat, [Var 1])], [Var 0].
  split; [apply perm_swap | split].
  - repeat constructor; simpl; intuition discriminate.
  - vm_compute. discriminate.
Qed.
