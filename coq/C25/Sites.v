(* C25 — the analysed map-range sites of the render path.  Every entry names a loop of the regenerated
   inventory (coq/Gen/C25MapRanges.v: file, function, ordinal, hash of the statement text), says what was
   found, and carries the proved statement about its fold model (SiteModels.v).  A loop that is added,
   moved to another ordinal or edited no longer matches an entry here, and
   C25_all_render_map_ranges_analysed stops checking until it has been analysed again. *)
From Coq Require Import List String ZArith Bool Arith Permutation.
Import ListNotations.
Require Import V.C25.Model V.C25.Proofs V.C25.SiteModels.
Open Scope string_scope.

Inductive verdict :=
| Sorted          (* keys only collected, then sorted by a total order on distinct keys before any use *)
| Commute         (* every two iterations commute: the final state is the same for every visiting order *)
| OrderSensitive. (* the observable result depends on the visiting order: a defect (findings.json) *)

Record site := mkSite { s_file : string; s_func : string; s_ord : nat; s_hash : string;
                        s_verdict : verdict; s_claim : Prop }.

Definition dagre := "d2layouts/d2dagrelayout/layout.go".

Definition margin_claim : Prop :=
  forall c l1 l2 s, Permutation l1 l2 ->
    loop _ _ _ (s_margin_body c) l1 s = loop _ _ _ (s_margin_body c) l2 s.

Definition fill_claim : Prop :=
  forall f l1 l2 s, Permutation l1 l2 -> NoDup (map fst l1) ->
    loop _ _ _ (s_fill_body f) l1 s = loop _ _ _ (s_fill_body f) l2 s.

Definition rank_spacing_claim : Prop :=
  exists (l1 l2 : list (nat * Z)) (op : nat -> Z -> Z),
    Permutation l1 l2 /\ NoDup (map fst l1) /\
    fold_left (fun s k => op k s) (s_rank_order l1) 10%Z <> fold_left (fun s k => op k s) (s_rank_order l2) 10%Z.

Definition counts_claim : Prop :=
  forall pred l1 l2 m, Permutation l1 l2 -> s_counts pred l1 m = s_counts pred l2 m.

(* keys collected from the map, then sorted with a strict total order before any use *)
Definition sorted_claim : Prop :=
  forall (A : Type) (ltb : A -> A -> bool),
    (forall a, ltb a a = false) ->
    (forall a b c, ltb a b = true -> ltb b c = true -> ltb a c = true) ->
    (forall a b, ltb a b = false -> ltb b a = false -> a = b) ->
    forall keys keys', NoDup keys -> Permutation keys keys' -> ssort ltb keys = ssort ltb keys'.

Definition analysed : list site := [
  (* prevMarginTop[o] = math.Max(prevMarginTop[o], margin.Top) and the Bottom/Left/Right variants:
     one slot per object, max with a loop-invariant constant *)
  mkSite dagre "adjustCrossRankSpacing" 0 "8753fb54" Commute margin_claim;
  mkSite dagre "adjustCrossRankSpacing" 1 "8cafd155" Commute margin_claim;
  mkSite dagre "adjustCrossRankSpacing" 2 "1ba807c0" Commute margin_claim;
  mkSite dagre "adjustCrossRankSpacing" 3 "ded99663" Commute margin_claim;
  (* ancestors collected from the map, sorted by their POSITION only (ties stay in map order), then
     adjusted one after another by code that reads the geometry the previous adjustment wrote *)
  mkSite dagre "adjustRankSpacing" 0 "8871a962" OrderSensitive rank_spacing_claim;
  mkSite dagre "adjustRankSpacing" 1 "3744f284" OrderSensitive rank_spacing_claim;
  (* float64 levels collected, sort.Slice with < on distinct non-NaN keys *)
  mkSite dagre "getRanks" 0 "3abf38a6" Sorted sorted_claim;
  (* ranges over `seen` while checkBelow/processQueue insert into it *)
  mkSite dagre "shiftReachableDown" 0 "fce4206b" OrderSensitive
    (exists (step : nat -> list nat * Z) (seen : list nat),
       s_range_growing 10 true step seen 0%Z <> s_range_growing 10 false step seen 0%Z);
  (* movedObjects only feeds existential tests and set insertion *)
  mkSite dagre "shiftReachableDown" 1 "ab4d5d49" Commute counts_claim;
  mkSite dagre "shiftReachableDown" 2 "9ff91bfb" Commute counts_claim;
  (* every ELK port belongs to one entry; p.X is a function of that entry *)
  mkSite "d2layouts/d2elklayout/layout.go" "Layout" 0 "c1261610" Commute
    (forall val l1 l2 s, Permutation l1 l2 -> NoDup (map fst l1) ->
       loop _ _ _ (s_ports_body val) l1 s = loop _ _ _ (s_ports_body val) l2 s);
  (* integer max over the children's self-loop labels *)
  mkSite "d2layouts/d2elklayout/layout.go" "childrenMaxSelfLoop" 0 "19da8d99" Commute
    (forall dim l1 l2 s, Permutation l1 l2 -> loop _ _ _ (s_max_body dim) l1 s = loop _ _ _ (s_max_body dim) l2 s);
  (* deletes every key *)
  mkSite "d2layouts/d2layouts.go" "ExtractSubgraph" 0 "9117c039" Commute
    (forall l1 l2 s, Permutation l1 l2 -> loop _ _ _ s_delete_body l1 s = loop _ _ _ s_delete_body l2 s);
  (* fills a fresh map keyed by the token type; read by keyed lookup only *)
  mkSite "d2renderers/d2svg/code.go" "styleToSVG" 0 "c40323fc" Commute fill_claim;
  (* inverse of a constant table; the only duplicated value is overwritten after the loop *)
  mkSite "d2target/d2target.go" "init" 0 "3480f6e9" Commute
    (forall sq rect l1 l2 s, Permutation l1 l2 ->
       NoDup (map snd (filter (fun e => negb (Nat.eqb (snd e) sq)) l1)) ->
       s_inverse sq rect l1 s = s_inverse sq rect l2 s);
  (* fills a fresh map keyed by the rune *)
  mkSite "lib/textmeasure/atlas.go" "NewAtlas" 0 "89d2168c" Commute fill_claim;
  (* compile path (d2ir.resolveSubstitutions for block strings).  Until /repo commit "fix: ... replaceVariables"
     (C08-block-string-variable-replace-order) this loop substituted the variables one after another in map
     order (order-sensitive: SiteModels.s_replace_variables_order_sensitive, statement hash 75623a11); it now
     only collects the keys, which are then sorted by (length descending, text): a total order on distinct keys *)
  mkSite "lib/textmeasure/substitutions.go" "replaceVariables" 0 "0beb1c95" Sorted sorted_claim
].

Definition covers (a : site) (r : string * string * nat * string * string * string) : bool :=
  let '(f, fn, o, _, k, h) := r in
  String.eqb (s_file a) f && String.eqb (s_func a) fn && Nat.eqb (s_ord a) o && String.eqb (s_hash a) h
  && String.eqb k "map".

Definition all_analysed_b (inv : list (string * string * nat * string * string * string)) : bool :=
  forallb (fun r => existsb (fun a => covers a r) analysed) inv.

Definition is_sensitive (a : site) : bool := match s_verdict a with OrderSensitive => true | _ => false end.

(* every claim attached to a site is a theorem *)
Lemma analysed_claims_hold : Forall (fun a => s_claim a) analysed.
Proof.
  unfold analysed. repeat constructor; simpl.
  - exact s_margin_order_insensitive.
  - exact s_margin_order_insensitive.
  - exact s_margin_order_insensitive.
  - exact s_margin_order_insensitive.
  - exact s_rank_spacing_order_sensitive.
  - exact s_rank_spacing_order_sensitive.
  - exact collect_then_sort_order_insensitive.
  - exact s_range_over_growing_map_order_sensitive.
  - exact s_counts_order_insensitive.
  - exact s_counts_order_insensitive.
  - exact s_ports_order_insensitive.
  - exact s_max_order_insensitive.
  - exact s_delete_order_insensitive.
  - exact s_fill_order_insensitive.
  - exact s_inverse_order_insensitive.
  - exact s_fill_order_insensitive.
  - exact collect_then_sort_order_insensitive.
Qed.

(* side condition of site d2target.init on the real table: only SQUARE_TYPE is a duplicated value *)
Fixpoint nodup_str (l : list string) : bool :=
  match l with [] => true | x :: xs => negb (existsb (String.eqb x) xs) && nodup_str xs end.

Definition only_square_duplicated (tbl : list (string * string)) (sq : string) : bool :=
  nodup_str (map snd (filter (fun e => negb (String.eqb (snd e) sq)) tbl)).
