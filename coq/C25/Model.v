(* C25 — Rendering is deterministic regardless of scheduling.  Definitions only.

   (1) d2svg.sortObjects (the z-order of everything that is drawn): the comparator handed to
       sort.SliceStable, literally, and a reference stable sort.
   (2) generic models of loops over Go maps (`for k, v := range m`): Go visits the entries in an
       unspecified order, so a loop is a fold over SOME permutation of the entry list.            *)
From Coq Require Import List ZArith NArith Bool Arith Lia Permutation Sorted.
Import ListNotations.
Open Scope Z_scope.

(* ------------------------------------------------------------------ (1) sortObjects *)
(* a DiagramObject: d2target.Shape (ZIndex, Level) or d2target.Connection (ZIndex); [id] only tells
   two objects with equal keys apart *)
Inductive dobj :=
| Shape (id : N) (z : Z) (level : Z)
| Conn (id : N) (z : Z).

Definition zindex (o : dobj) : Z := match o with Shape _ z _ => z | Conn _ z => z end.
Definition oid (o : dobj) : N := match o with Shape i _ _ => i | Conn i _ => i end.

(* func(i, j int) bool of sortObjects:
     if iZIndex != jZIndex { return iZIndex < jZIndex }
     if iIsShape && jIsShape { return iShape.Level < jShape.Level }
     return iIsShape && jIsConnection                                  *)
Definition less (a b : dobj) : bool :=
  if negb (zindex a =? zindex b) then zindex a <? zindex b
  else match a, b with
       | Shape _ _ la, Shape _ _ lb => la <? lb
       | Shape _ _ _, Conn _ _ => true
       | _, _ => false
       end.

(* the key the comparator really orders by: (ZIndex, shape before connection, Level of shapes) *)
Definition key (o : dobj) : Z * Z * Z :=
  match o with Shape _ z l => (z, 0, l) | Conn _ z => (z, 1, 0) end.

Definition klt (a b : Z * Z * Z) : Prop :=
  let '(a1, a2, a3) := a in let '(b1, b2, b3) := b in
  a1 < b1 \/ (a1 = b1 /\ (a2 < b2 \/ (a2 = b2 /\ a3 < b3))).

(* reference stable sort: insertion from the right, an element goes in front of the first element
   that is not smaller than it (so it stays in front of later elements with an equal key) *)
Fixpoint insert {A} (lt : A -> A -> bool) (x : A) (l : list A) : list A :=
  match l with
  | [] => [x]
  | y :: ys => if lt y x then y :: insert lt x ys else x :: y :: ys
  end.
Definition ssort {A} (lt : A -> A -> bool) (l : list A) : list A := fold_right (insert lt) [] l.

(* elements tagged with their position in the input *)
Fixpoint indexed_from {A} (i : nat) (l : list A) : list (nat * A) :=
  match l with [] => [] | x :: xs => (i, x) :: indexed_from (S i) xs end.
Definition indexed {A} (l : list A) := indexed_from 0 l.

Definition iless (a b : nat * dobj) : bool := less (snd a) (snd b).

(* what sort.SliceStable promises for a comparator that is a strict weak order: a permutation of the
   input, no element is smaller than an element before it, elements that compare equal keep their
   input order *)
Record StableSortOf (l : list dobj) (out : list (nat * dobj)) : Prop := mkSS {
  ss_perm : Permutation (indexed l) out;
  ss_sorted : StronglySorted (fun a b => iless b a = false) out;
  ss_stable : StronglySorted (fun a b => iless a b = false -> (fst a < fst b)%nat) out
}.

(* d2svg.Render: allObjects = shapes in diagram.Shapes order, then connections in diagram.Connections
   order; sortObjects(allObjects); draw in that order *)
Definition draw_order (shapes conns : list dobj) : list dobj :=
  map snd (ssort iless (indexed (shapes ++ conns))).

(* executable check of StableSortOf on an observed output *)
Fixpoint sorted_b {A} (r : A -> A -> bool) (l : list A) : bool :=
  match l with [] => true | x :: xs => forallb (r x) xs && sorted_b r xs end.

(* ------------------------------------------------------------------ (2) loops over maps *)
Section MapLoops.
  Variables K V S : Type.
  (* a loop body without break/return: one state transition per entry *)
  Definition loop (body : S -> K * V -> S) (entries : list (K * V)) (s0 : S) : S :=
    fold_left body entries s0.

  (* pattern COMMUTE: any two iterations can be swapped *)
  Definition commutes (body : S -> K * V -> S) : Prop :=
    forall s e1 e2, body (body s e1) e2 = body (body s e2) e1.

  (* pattern ANY: the loop returns as soon as an entry satisfies p *)
  Definition loop_any (p : K * V -> bool) (entries : list (K * V)) : bool := existsb p entries.
End MapLoops.

(* ------------------------------------------------------------------ (3) chroma's matchRules *)
(* github.com/alecthomas/chroma/v2 regexp.go, used by d2svg for code blocks:
     for i, rule := range rules {
         match, err := rule.Regexp.FindRunesMatchStartingAt(text, pos)   // MatchTimeout = 250ms
         if match != nil && err == nil && match.Index == pos { return i, rule, ... } }
   a regexp2 match that exceeds its wall-clock budget returns an error, which is treated as "this rule
   does not match".  [m r] is what rule r matches at the position, [timed_out i] whether the attempt
   on the i-th rule ran out of its 250 ms. *)
Fixpoint match_rules {R T} (m : R -> option T) (timed_out : nat -> bool) (i : nat) (rules : list R)
  : option (nat * T) :=
  match rules with
  | [] => None
  | r :: rs => match m r with
               | Some t => if timed_out i then match_rules m timed_out (S i) rs else Some (i, t)
               | None => match_rules m timed_out (S i) rs
               end
  end.
