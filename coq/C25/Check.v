(* Executable case checker for C25: evaluated by vm_compute on cases written by harness/c25.go.

   Failure codes
     1   correspondence: d2svg.sortObjects ordered a list differently from the reference stable sort
    10   a sequential repetition in the same process produced a different SVG than the reference
         (the first render, made in a fresh process)
    11   a render made while other diagrams were being rendered concurrently (24-32 goroutines,
         GOMAXPROCS 1/2/8/16) produced a different SVG
    12   a render in another process (fresh, or after other diagrams in either order) produced a
         different SVG
    30   the implementation's output violates the stable-sort contract (not a permutation of the input /
         an element smaller than an earlier one / equal elements not in input order)
    99   (harness) a panic, a failed child process, or a data race reported by the race detector     *)
From Coq Require Import List NArith ZArith Bool Arith.
Import ListNotations.
Require Export V.Lib.RunCases V.C25.Model V.C25.Proofs.
Open Scope N_scope.

Inductive case :=
| CSort (l : list dobj) (out : list nat)
    (* input of sortObjects; for every element of its output, the position it had in the input *)
| CRuns (ref : N) (seq : list N) (conc : list (N * list N)) (procs : list N).
    (* digests of the SVG bytes: reference; k sequential; per GOMAXPROCS the concurrent ones; other processes *)

Definition pairs_of (l : list dobj) (out : list nat) : list (nat * dobj) :=
  flat_map (fun i => match nth_error l i with Some x => [(i, x)] | None => [] end) out.

Definition all_equal (ref : N) (l : list N) : bool := forallb (N.eqb ref) l.

Definition check_case (c : case) : list N :=
  match c with
  | CSort l out =>
      flag (list_eqb Nat.eqb (map fst (ssort iless (indexed l))) out) 1
      ++ flag (ss_check l (pairs_of l out)) 30
  | CRuns ref seq conc procs =>
      flag (all_equal ref seq) 10
      ++ flag (forallb (fun p => all_equal ref (snd p)) conc) 11
      ++ flag (all_equal ref procs) 12
  end.
