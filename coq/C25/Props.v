(* C25 — Rendering is deterministic regardless of scheduling.  Statements only.
   PARTIAL: what is proved is (1) that every map iteration of the render path has been analysed and
   which of them are order-insensitive, (2) that the z-order computed by d2svg.sortObjects does not
   depend on the stable sorting algorithm.  Goroutine schedules, goja runtimes, the font mutex and wall
   clock effects are outside Gallina: they are sampled by the harness (Check.v codes 10-12, race detector).

   Full statement (not provable as such; sampled):
     forall input options schedule, svg (render_under schedule input options) = svg (render input options) *)
From Coq Require Import List String ZArith NArith Bool Permutation Sorted.
Import ListNotations.
Require Import V.Gen.C25MapRanges.
Require Import V.C25.Model V.C25.Proofs V.C25.SiteModels V.C25.Sites.

(* (1a) every `range` over a map in the render path of the CURRENT tree (inventory regenerated on every
   run by go/types) is an analysed site: same file, function, ordinal and statement text *)
Theorem C25_all_render_map_ranges_analysed :
  forall r, In r map_ranges -> exists a, In a analysed /\ covers a r = true.
Proof.
  assert (H : all_analysed_b map_ranges = true) by (vm_compute; reflexivity).
  intros r Hr. unfold all_analysed_b in H. rewrite forallb_forall in H.
  specialize (H r Hr). apply existsb_exists in H. exact H.
Qed.

(* (1b) every analysed site carries a proved statement about its fold model: order-insensitivity for
   the sites marked Sorted / Commute, a counterexample for the sites marked OrderSensitive *)
Theorem C25_analysed_sites_claims : Forall (fun a => s_claim a) analysed.
Proof. exact analysed_claims_hold. Qed.

(* (1c) the unrestricted statement "all render map ranges are order-insensitive" is refuted: three loops
   of the current tree are order-sensitive (genuine defects, findings.json: dagre's container spacing).
   A fourth one (markdown variable substitution, compile path) was order-sensitive until it was repaired
   in /repo (C08-block-string-variable-replace-order); the changed statement hash made theorem (1a) fail
   until the new loop was analysed. *)
Theorem C25_all_render_map_ranges_order_insensitive_refuted :
  exists r a, In r map_ranges /\ In a analysed /\ covers a r = true /\ s_verdict a = OrderSensitive /\ s_claim a.
Proof.
  exists ("d2layouts/d2dagrelayout/layout.go", "shiftReachableDown", 0%nat, "seen", "map", "fce4206b")%string.
  eexists (mkSite dagre "shiftReachableDown" 0 "fce4206b" OrderSensitive _).
  split; [vm_compute; tauto|]. split; [unfold analysed; simpl; tauto|].
  split; [vm_compute; reflexivity|]. split; [reflexivity|].
  exact s_range_over_growing_map_order_sensitive.
Qed.

(* the order-sensitive sites are exactly these three; everything else in the inventory is order-insensitive *)
Theorem C25_order_sensitive_sites_are :
  map (fun a => (s_func a, s_ord a)) (filter is_sensitive analysed)
  = [("adjustRankSpacing", 0%nat); ("adjustRankSpacing", 1%nat); ("shiftReachableDown", 0%nat)]%string.
Proof. vm_compute. reflexivity. Qed.

(* side condition of site d2target.init, on the table of the current tree *)
Theorem C25_shape_table_only_square_duplicated : only_square_duplicated shape_table square_type = true.
Proof. vm_compute. reflexivity. Qed.

(* (2) d2svg.sortObjects: the comparator orders by (ZIndex, shape before connection, Level) … *)
Theorem C25_sort_less_is_key_order : forall a b, less a b = true <-> klt (key a) (key b).
Proof. exact less_klt. Qed.

(* … every algorithm that meets sort.SliceStable's contract returns the same list … *)
Theorem C25_sort_objects_deterministic :
  forall l out1 out2, StableSortOf l out1 -> StableSortOf l out2 -> out1 = out2.
Proof. exact sort_objects_deterministic_thm. Qed.

(* … the contract is satisfiable (reference insertion sort; the one Check.v runs) … *)
Theorem C25_reference_sort_is_stable_sort : forall l, StableSortOf l (ssort iless (indexed l)).
Proof. exact ssort_is_stable_sort_thm. Qed.

(* … ties ARE broken by input order only, so the draw order is a function of the export order
   (diagram.Shapes then diagram.Connections) and of nothing else *)
Theorem C25_ties_broken_by_input_order_only :
  exists l1 l2, Permutation l1 l2 /\
    map snd (ssort iless (indexed l1)) <> map snd (ssort iless (indexed l2)).
Proof. exact ties_broken_by_input_order_only_thm. Qed.

Theorem C25_draw_order_determined_by_export_order :
  forall shapes conns out, StableSortOf (shapes ++ conns) out -> map snd out = draw_order shapes conns.
Proof. exact draw_order_determined_thm. Qed.

(* the executable contract check used on the implementation's output is sound *)
Theorem C25_ss_check_sound : forall l out, ss_check l out = true -> StableSortOf l out.
Proof. exact ss_check_sound_thm. Qed.

(* (3) chroma's matchRules (syntax highlighting of code blocks): deterministic without timeouts,
   time-dependent with them (finding C25-chroma-match-timeout) *)
Theorem C25_match_rules_deterministic_without_timeouts :
  forall (R T : Type) (m : R -> option T) (t1 t2 : nat -> bool) rules,
    (forall i, t1 i = false) -> (forall i, t2 i = false) ->
    forall i, match_rules m t1 i rules = match_rules m t2 i rules.
Proof. exact @match_rules_no_timeouts_thm. Qed.

Theorem C25_match_rules_time_dependent :
  exists (rules : list nat) (m : nat -> option nat) (t1 t2 : nat -> bool),
    match_rules m t1 0 rules <> match_rules m t2 0 rules.
Proof. exact match_rules_time_dependent_thm. Qed.

(* non-vacuity of the stable-sort contract: a list with ties *)
Example C25_stable_sort_contract_satisfiable :
  StableSortOf [Conn 0 0; Shape 1 0 2; Shape 2 0 1; Shape 3 0 1]
               [(2%nat, Shape 2 0 1); (3%nat, Shape 3 0 1); (1%nat, Shape 1 0 2); (0%nat, Conn 0 0)].
Proof. apply ss_check_sound_thm. vm_compute. reflexivity. Qed.

Print Assumptions C25_all_render_map_ranges_analysed.
Print Assumptions C25_analysed_sites_claims.
Print Assumptions C25_all_render_map_ranges_order_insensitive_refuted.
Print Assumptions C25_order_sensitive_sites_are.
Print Assumptions C25_shape_table_only_square_duplicated.
Print Assumptions C25_sort_less_is_key_order.
Print Assumptions C25_sort_objects_deterministic.
Print Assumptions C25_reference_sort_is_stable_sort.
Print Assumptions C25_ties_broken_by_input_order_only.
Print Assumptions C25_draw_order_determined_by_export_order.
Print Assumptions C25_ss_check_sound.
Print Assumptions C25_match_rules_deterministic_without_timeouts.
Print Assumptions C25_match_rules_time_dependent.
