(* C25 — proofs: sortObjects yields one result whatever stable sorting algorithm is used. *)
From Coq Require Import List ZArith NArith Bool Arith Lia Permutation Sorted.
Import ListNotations.
Require Import V.C25.Model.
Open Scope Z_scope.

(* ------------------------------------------------------------------ the comparator is the key order *)
Lemma less_klt a b : less a b = true <-> klt (key a) (key b).
Proof.
  destruct a as [ia za la|ia za], b as [ib zb lb|ib zb]; unfold less, klt, key, zindex;
    destruct (Z.eqb_spec za zb); simpl; rewrite ?Z.ltb_lt; split; intro H; try lia; try discriminate.
Qed.

Lemma less_false_klt a b : less a b = false <-> ~ klt (key a) (key b).
Proof. rewrite <- less_klt. destruct (less a b); split; congruence. Qed.

Lemma klt_asym a b : klt a b -> klt b a -> False.
Proof. destruct a as [[a1 a2] a3], b as [[b1 b2] b3]. unfold klt. lia. Qed.

Lemma klt_negtrans a b c : ~ klt a b -> ~ klt b c -> ~ klt a c.
Proof. destruct a as [[a1 a2] a3], b as [[b1 b2] b3], c as [[c1 c2] c3]. unfold klt. lia. Qed.

Lemma klt_trans a b c : klt a b -> klt b c -> klt a c.
Proof. destruct a as [[a1 a2] a3], b as [[b1 b2] b3], c as [[c1 c2] c3]. unfold klt. lia. Qed.

Lemma less_asym a b : less a b = true -> less b a = false.
Proof. rewrite less_klt, less_false_klt. intros H1 H2. exact (klt_asym _ _ H1 H2). Qed.

Lemma less_irrefl a : less a a = false.
Proof. apply less_false_klt. intro H. exact (klt_asym _ _ H H). Qed.

Lemma less_trans a b c : less a b = true -> less b c = true -> less a c = true.
Proof. rewrite !less_klt. apply klt_trans. Qed.

(* "not smaller" is transitive: incomparable elements form classes (strict weak order) *)
Lemma less_negtrans a b c : less a b = false -> less b c = false -> less a c = false.
Proof. rewrite !less_false_klt. apply klt_negtrans. Qed.

(* ------------------------------------------------------------------ sorted permutations are unique *)
Lemma StronglySorted_weaken {A} (R1 R2 : A -> A -> Prop) l :
  (forall a b, R1 a b -> R2 a b) -> StronglySorted R1 l -> StronglySorted R2 l.
Proof.
  intros H S. induction S; constructor; auto.
  eapply Forall_impl; [|eassumption]. intros; auto.
Qed.

Lemma StronglySorted_and {A} (R1 R2 : A -> A -> Prop) l :
  StronglySorted R1 l -> StronglySorted R2 l -> StronglySorted (fun a b => R1 a b /\ R2 a b) l.
Proof.
  intros S1. induction S1 as [|x xs S1 IH F1]; intro S2; [constructor|].
  inversion S2 as [|? ? S2' F2]; subst. constructor; auto.
  rewrite Forall_forall in *. intros y Hy. split; auto.
Qed.

Lemma sorted_perm_unique {A} (R : A -> A -> Prop) :
  (forall a b, R a b -> R b a -> False) ->
  forall l1 l2, StronglySorted R l1 -> StronglySorted R l2 -> Permutation l1 l2 -> l1 = l2.
Proof.
  intros Asym l1. induction l1 as [|x xs IH]; intros l2 S1 S2 P.
  - apply Permutation_nil in P. auto.
  - destruct l2 as [|y ys]; [apply Permutation_sym, Permutation_nil in P; discriminate|].
    inversion S1 as [|? ? S1' F1]; subst. inversion S2 as [|? ? S2' F2]; subst.
    rewrite Forall_forall in F1, F2.
    assert (x = y) as ->.
    { assert (Hx : In x (y :: ys)) by (eapply Permutation_in; [exact P | left; auto]).
      assert (Hy : In y (x :: xs)) by (eapply Permutation_in; [apply Permutation_sym; exact P | left; auto]).
      destruct Hx as [->|Hx]; auto. destruct Hy as [->|Hy]; auto.
      exfalso. exact (Asym x y (F1 _ Hy) (F2 _ Hx)). }
    f_equal. apply IH; auto. eapply Permutation_cons_inv; eauto.
Qed.

(* the order a stable sort realises: key order, ties by input position *)
Definition lt' (a b : nat * dobj) : Prop :=
  iless a b = true \/ (iless a b = false /\ iless b a = false /\ (fst a < fst b)%nat).

Lemma lt'_asym a b : lt' a b -> lt' b a -> False.
Proof.
  unfold lt', iless. intros [H1|[H1 [H2 H3]]] [G1|[G1 [G2 G3]]]; try congruence.
  - apply less_asym in H1. congruence.
  - lia.
Qed.

Lemma stable_sorted_lt' l out : StableSortOf l out -> StronglySorted lt' out.
Proof.
  intros [_ S1 S2]. eapply StronglySorted_weaken; [|exact (StronglySorted_and _ _ _ S1 S2)].
  intros a b [H1 H2]. unfold lt'. destruct (iless a b) eqn:E; auto.
Qed.

Theorem sort_objects_deterministic_thm :
  forall l out1 out2, StableSortOf l out1 -> StableSortOf l out2 -> out1 = out2.
Proof.
  intros l o1 o2 H1 H2. apply (sorted_perm_unique lt' lt'_asym).
  - eapply stable_sorted_lt'; eauto.
  - eapply stable_sorted_lt'; eauto.
  - eapply Permutation_trans; [apply Permutation_sym; apply (ss_perm _ _ H1) | apply (ss_perm _ _ H2)].
Qed.

(* ------------------------------------------------------------------ the reference sort meets the contract *)
Lemma insert_perm {A} (lt : A -> A -> bool) x l : Permutation (x :: l) (insert lt x l).
Proof.
  induction l as [|y ys IH]; simpl; auto. destruct (lt y x); auto.
  eapply Permutation_trans; [apply perm_swap|]. constructor. exact IH.
Qed.

Lemma ssort_perm {A} (lt : A -> A -> bool) l : Permutation l (ssort lt l).
Proof.
  induction l as [|x xs IH]; simpl; auto.
  eapply Permutation_trans; [|apply insert_perm]. constructor. exact IH.
Qed.

Definition R' (a b : nat * dobj) : Prop :=
  iless b a = false /\ (iless a b = false -> (fst a < fst b)%nat).

Lemma insert_sorted x l :
  StronglySorted R' l -> (forall y, In y l -> (fst x < fst y)%nat) -> StronglySorted R' (insert iless x l).
Proof.
  induction l as [|y ys IH]; intros S Hidx; simpl.
  - constructor; constructor.
  - inversion S as [|? ? S' F]; subst. rewrite Forall_forall in F.
    destruct (iless y x) eqn:E.
    + constructor.
      * apply IH; auto. intros z Hz. apply Hidx. right. exact Hz.
      * rewrite Forall_forall. intros z Hz.
        apply (Permutation_in _ (Permutation_sym (insert_perm iless x ys))) in Hz.
        destruct Hz as [<-|Hz]; [|auto].
        split; [unfold iless in *; apply less_asym; exact E | intro; congruence].
    + constructor; [exact S|]. rewrite Forall_forall. intros z Hz. split.
      * destruct Hz as [<-|Hz]; [exact E|].
        destruct (F z Hz) as [Hzy _]. unfold iless in *. eapply less_negtrans; eauto.
      * intros _. apply Hidx. exact Hz.
Qed.

Lemma indexed_from_ge {A} (l : list A) : forall i p, In p (indexed_from i l) -> (i <= fst p)%nat.
Proof.
  induction l as [|x xs IH]; intros i p H; simpl in H; [contradiction|].
  destruct H as [<-|H]; simpl; [lia|]. apply IH in H. lia.
Qed.

Lemma ssort_sorted (l : list dobj) : forall i, StronglySorted R' (ssort iless (indexed_from i l)).
Proof.
  induction l as [|x xs IH]; intro i; simpl; [constructor|].
  apply insert_sorted; [apply IH|].
  intros y Hy. apply (Permutation_in _ (Permutation_sym (ssort_perm iless _))) in Hy.
  apply indexed_from_ge in Hy. simpl. lia.
Qed.

Theorem ssort_is_stable_sort_thm : forall l, StableSortOf l (ssort iless (indexed l)).
Proof.
  intro l. constructor.
  - apply ssort_perm.
  - eapply StronglySorted_weaken; [|apply ssort_sorted]. intros a b [H _]. exact H.
  - eapply StronglySorted_weaken; [|apply ssort_sorted]. intros a b [_ H]. exact H.
Qed.

(* every algorithm that meets sort.SliceStable's contract returns exactly the reference result *)
Corollary stable_sort_is_ssort l out : StableSortOf l out -> out = ssort iless (indexed l).
Proof. intro H. eapply sort_objects_deterministic_thm; [exact H | apply ssort_is_stable_sort_thm]. Qed.

(* ties are broken by input order only: the comparator does not determine the draw order by itself *)
Theorem ties_broken_by_input_order_only_thm :
  exists l1 l2, Permutation l1 l2 /\
    map snd (ssort iless (indexed l1)) <> map snd (ssort iless (indexed l2)).
Proof.
  exists [Shape 1 0 1; Shape 2 0 1], [Shape 2 0 1; Shape 1 0 1]. split.
  - apply perm_swap.
  - vm_compute. discriminate.
Qed.

(* hence the draw order is a function of the export order (diagram.Shapes, diagram.Connections) and of
   nothing else: whatever stable sort the Go runtime uses *)
Theorem draw_order_determined_thm :
  forall shapes conns out, StableSortOf (shapes ++ conns) out -> map snd out = draw_order shapes conns.
Proof. intros s c out H. unfold draw_order. rewrite (stable_sort_is_ssort _ _ H). reflexivity. Qed.

(* ------------------------------------------------------------------ executable check of the contract *)
Definition dobj_eqb (a b : dobj) : bool :=
  match a, b with
  | Shape i z l, Shape j y k => N.eqb i j && Z.eqb z y && Z.eqb l k
  | Conn i z, Conn j y => N.eqb i j && Z.eqb z y
  | _, _ => false
  end.

Lemma dobj_eqb_eq a b : dobj_eqb a b = true <-> a = b.
Proof.
  destruct a as [i z l|i z], b as [j y k|j y]; simpl; split; intro H; try discriminate.
  - apply andb_true_iff in H; destruct H as [H H3]. apply andb_true_iff in H; destruct H as [H1 H2].
    apply N.eqb_eq in H1. apply Z.eqb_eq in H2. apply Z.eqb_eq in H3. subst. reflexivity.
  - inversion H; subst. rewrite N.eqb_refl, !Z.eqb_refl. reflexivity.
  - apply andb_true_iff in H; destruct H as [H1 H2]. apply N.eqb_eq in H1. apply Z.eqb_eq in H2.
    subst. reflexivity.
  - inversion H; subst. rewrite N.eqb_refl, Z.eqb_refl. reflexivity.
Qed.

Fixpoint nodup_nat (l : list nat) : bool :=
  match l with [] => true | x :: xs => negb (existsb (Nat.eqb x) xs) && nodup_nat xs end.

Definition ss_check (l : list dobj) (out : list (nat * dobj)) : bool :=
  Nat.eqb (length out) (length l)
  && nodup_nat (map fst out)
  && forallb (fun p => match nth_error l (fst p) with Some x => dobj_eqb x (snd p) | None => false end) out
  && sorted_b (fun a b => negb (iless b a)) out
  && sorted_b (fun a b => iless a b || Nat.ltb (fst a) (fst b)) out.

Lemma nodup_nat_spec l : nodup_nat l = true -> NoDup l.
Proof.
  induction l as [|x xs IH]; simpl; intro H; [constructor|].
  apply andb_true_iff in H. destruct H as [H1 H2]. constructor; auto.
  intro Hin. apply negb_true_iff in H1.
  assert (existsb (Nat.eqb x) xs = true) by (apply existsb_exists; exists x; split; auto; apply Nat.eqb_refl).
  congruence.
Qed.

Lemma sorted_b_spec {A} (r : A -> A -> bool) l :
  sorted_b r l = true -> StronglySorted (fun a b => r a b = true) l.
Proof.
  induction l as [|x xs IH]; simpl; intro H; [constructor|].
  apply andb_true_iff in H. destruct H as [H1 H2]. constructor; auto.
  apply Forall_forall. apply forallb_forall. exact H1.
Qed.

Lemma in_indexed_from {A} (l : list A) : forall i k x,
  nth_error l k = Some x -> In ((i + k)%nat, x) (indexed_from i l).
Proof.
  induction l as [|y ys IH]; intros i k x H; destruct k; simpl in *; try discriminate.
  - inversion H; subst. left. f_equal. lia.
  - right. replace (i + S k)%nat with (S i + k)%nat by lia. apply IH. exact H.
Qed.

Lemma indexed_from_length {A} (l : list A) i : length (indexed_from i l) = length l.
Proof. revert i. induction l; intro i; simpl; auto. Qed.

Lemma NoDup_map_fst {A B} (l : list (A * B)) : NoDup (map fst l) -> NoDup l.
Proof.
  induction l as [|x xs IH]; simpl; intro H; [constructor|].
  inversion H; subst. constructor; auto. intro Hin. apply H2. apply in_map. exact Hin.
Qed.

Theorem ss_check_sound_thm : forall l out, ss_check l out = true -> StableSortOf l out.
Proof.
  intros l out H. unfold ss_check in H.
  apply andb_true_iff in H; destruct H as [H Hst].
  apply andb_true_iff in H; destruct H as [H Hs].
  apply andb_true_iff in H; destruct H as [H Hel].
  apply andb_true_iff in H; destruct H as [Hlen Hnd].
  constructor.
  - apply Permutation_sym. apply NoDup_Permutation_bis.
    + apply NoDup_map_fst. apply nodup_nat_spec. exact Hnd.
    + unfold indexed. rewrite indexed_from_length. apply Nat.eqb_eq in Hlen. lia.
    + intros [i x] Hin. rewrite forallb_forall in Hel. specialize (Hel _ Hin). simpl in Hel.
      destruct (nth_error l i) as [y|] eqn:E; [|discriminate]. apply dobj_eqb_eq in Hel. subst y.
      apply (in_indexed_from l 0 i x E).
  - eapply StronglySorted_weaken; [|apply sorted_b_spec; exact Hs].
    intros a b Hab. simpl in Hab. apply negb_true_iff in Hab. exact Hab.
  - eapply StronglySorted_weaken; [|apply sorted_b_spec; exact Hst].
    intros a b Hab Hless. simpl in Hab. rewrite Hless in Hab. simpl in Hab. apply Nat.ltb_lt. exact Hab.
Qed.

(* ------------------------------------------------------------------ loops over maps *)
Section MapLoops.
  Variables K V S : Type.

  Lemma loop_commutes_perm (body : S -> K * V -> S) :
    commutes K V S body ->
    forall l1 l2, Permutation l1 l2 -> forall s, loop K V S body l1 s = loop K V S body l2 s.
  Proof.
    intros C l1 l2 P. unfold loop. induction P; intro s; simpl; auto.
    - rewrite C. reflexivity.
    - rewrite IHP1. apply IHP2.
  Qed.

  Lemma loop_any_perm (p : K * V -> bool) l1 l2 :
    Permutation l1 l2 -> loop_any K V p l1 = loop_any K V p l2.
  Proof.
    intro P. unfold loop_any. induction P; simpl; auto.
    - rewrite IHP. reflexivity.
    - destruct (p x), (p y); reflexivity.
    - congruence.
  Qed.
End MapLoops.

(* ------------------------------------------------------------------ collect keys, then sort *)
Section TotalSort.
  Variable A : Type.
  Variable ltb : A -> A -> bool.
  Hypothesis ltb_irrefl : forall a, ltb a a = false.
  Hypothesis ltb_trans : forall a b c, ltb a b = true -> ltb b c = true -> ltb a c = true.
  Hypothesis ltb_total : forall a b, ltb a b = false -> ltb b a = false -> a = b.

  Lemma insert_total_sorted x l :
    ~ In x l -> StronglySorted (fun a b => ltb a b = true) l ->
    StronglySorted (fun a b => ltb a b = true) (insert ltb x l).
  Proof.
    induction l as [|y ys IH]; intros Hn S; simpl.
    - constructor; constructor.
    - inversion S as [|? ? S' F]; subst. rewrite Forall_forall in F.
      destruct (ltb y x) eqn:E.
      + constructor.
        * apply IH; auto. intro H. apply Hn. right. exact H.
        * rewrite Forall_forall. intros z Hz.
          apply (Permutation_in _ (Permutation_sym (insert_perm ltb x ys))) in Hz.
          destruct Hz as [<-|Hz]; auto.
      + assert (Hxy : ltb x y = true).
        { destruct (ltb x y) eqn:E2; auto. exfalso. apply Hn. left. symmetry. apply ltb_total; auto. }
        constructor; [exact S|]. rewrite Forall_forall. intros z [<-|Hz]; auto.
        eapply ltb_trans; eauto.
  Qed.

  Lemma ssort_total_sorted l : NoDup l -> StronglySorted (fun a b => ltb a b = true) (ssort ltb l).
  Proof.
    induction l as [|x xs IH]; intro ND; simpl; [constructor|].
    inversion ND; subst. apply insert_total_sorted; auto.
    intro H. apply (Permutation_in _ (Permutation_sym (ssort_perm ltb xs))) in H. contradiction.
  Qed.

  (* the keys of a Go map are distinct: whatever order the loop visits them in, collecting them and
     sorting with a total order gives one list *)
  Theorem collect_then_sort_order_insensitive l l' :
    NoDup l -> Permutation l l' -> ssort ltb l = ssort ltb l'.
  Proof.
    intros ND P. apply (sorted_perm_unique (fun a b => ltb a b = true)).
    - intros a b H1 H2. pose proof (ltb_trans _ _ _ H1 H2) as H. rewrite ltb_irrefl in H. discriminate.
    - apply ssort_total_sorted; auto.
    - apply ssort_total_sorted. eapply Permutation_NoDup; eauto.
    - eapply Permutation_trans; [apply Permutation_sym; apply ssort_perm|].
      eapply Permutation_trans; [exact P | apply ssort_perm].
  Qed.
End TotalSort.

(* ------------------------------------------------------------------ chroma's matchRules depends on the clock *)
Theorem match_rules_no_timeouts_thm {R T} (m : R -> option T) (t1 t2 : nat -> bool) rules :
  (forall i, t1 i = false) -> (forall i, t2 i = false) ->
  forall i, match_rules m t1 i rules = match_rules m t2 i rules.
Proof.
  intros H1 H2. induction rules as [|r rs IH]; intro i; simpl; auto.
  destruct (m r); [rewrite H1, H2; reflexivity | apply IH].
Qed.

(* two rules match at the position (the specific one first, the catch-all second, as for `range` in
   chroma's Python lexer: Name.Builtin before Name): a timeout on the first changes the token *)
Theorem match_rules_time_dependent_thm :
  exists (rules : list nat) (m : nat -> option nat) (t1 t2 : nat -> bool),
    match_rules m t1 0 rules <> match_rules m t2 0 rules.
Proof.
  exists [1; 2]%nat, (fun r => Some r), (fun _ => false), (fun i => Nat.eqb i 0).
  vm_compute. discriminate.
Qed.
