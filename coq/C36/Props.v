(* C36 - editing produces compilable, formatter-stable source.  Statements only.

   FULL PROPERTY (NOT a theorem; monitored on the implementation after every edit of every generated
   history by Check.v, codes 10 / 11 / 12):
     forall diagram g that compiles, forall edit e, e g = Ok g' ->
       Compile (Format g'.AST) = Ok g'' /\ project g'' = project g' /\ Format (Parse (Format g'.AST)) = Format g'.AST

   PROVED: the composition lemma for the pipeline every edit ends with (recompile = compile . format),
   for ANY formatter / parser / compiler such that formatting is idempotent on the texts it prints
   (H_fmt_idempotent = C03, proved for a fragment on branch g16: pending on main).  The AST surgery of
   edit.go that produces the AST handed to recompile is not modelled: it is covered by search only. *)
From Coq Require Import List.
Require Import V.C36.Model V.C36.Proofs.

Theorem C36_recompile_text_compiles_and_is_stable_partial :
  forall (ast text graph : Type) (format : ast -> text) (parse : text -> option ast)
         (compile_ast : ast -> option graph),
    (forall a a', parse (format a) = Some a' -> format a' = format a) ->
    forall a g a',
      recompile ast text graph format parse compile_ast a = Some (g, a') ->
      compile ast text graph parse compile_ast (format a') = Some g
      /\ (forall a'', parse (format a') = Some a'' -> format a'' = format a').
Proof. exact recompile_text_compiles_and_is_stable. Qed.

(* the hypothesis is satisfiable (and the pipeline non-trivial): ASTs = numbers, texts = lists of units,
   the parser refuses texts longer than 9 *)
Example C36_hypothesis_satisfiable :
  let format (a : nat) := repeat tt a in
  let parse (t : list unit) := if Nat.ltb (length t) 10 then Some (length t) else None in
  (forall a a', parse (format a) = Some a' -> format a' = format a)
  /\ recompile nat (list unit) nat format parse (fun a => Some (S a)) 3 = Some (4, 3)
  /\ recompile nat (list unit) nat format parse (fun a => Some (S a)) 12 = None.
Proof.
  cbn zeta. split; [|split; reflexivity].
  intros a a' H. rewrite repeat_length in H. destruct (Nat.ltb a 10); [|discriminate].
  injection H as <-. reflexivity.
Qed.

Print Assumptions C36_recompile_text_compiles_and_is_stable_partial.
