(* C36 - composition lemma for the recompile pipeline. *)
From Coq Require Import List.
Require Import V.C36.Model.

Section Pipeline.
  Variables (ast text graph : Type).
  Variable format : ast -> text.
  Variable parse : text -> option ast.
  Variable compile_ast : ast -> option graph.

  (* C03 (formatting is idempotent): the text the formatter prints parses, and printing the parsed AST
     gives the same text.  Proved for a fragment of the language on branch g16 (coq/C03:
     C03_fmt_idempotent_F_partial), false for the whole language (coq/C03/findings.json) - which is why
     clause (c) is evaluated on the implementation after every edit (code 12). *)
  Hypothesis H_fmt_idempotent : forall a a', parse (format a) = Some a' -> format a' = format a.

  Theorem recompile_text_compiles_and_is_stable a g a' :
    recompile ast text graph format parse compile_ast a = Some (g, a') ->
    (* the text of the returned AST compiles to the returned graph ... *)
    compile ast text graph parse compile_ast (format a') = Some g
    (* ... and the formatter leaves it unchanged *)
    /\ (forall a'', parse (format a') = Some a'' -> format a'' = format a').
  Proof.
    unfold recompile, compile. intro H.
    destruct (parse (format a)) as [a1|] eqn:Ep; [|discriminate].
    destruct (compile_ast a1) as [g1|] eqn:Ec; [|discriminate].
    cbn in H. injection H as <- <-.
    split.
    - rewrite (H_fmt_idempotent _ _ Ep), Ep. exact Ec.
    - intros a'' E. apply H_fmt_idempotent. exact E.
  Qed.
End Pipeline.
