(* C36 - the pipeline every d2oracle edit ends with (edit.go: recompile):

       recompile g  =  Compile (Format g.AST)

   i.e. the edited AST is printed, the text is parsed again and the parsed AST is compiled; the caller
   gets the compiled graph, whose AST field is the PARSED one.  Definitions only; everything d2 does
   (formatter, parser, compiler) is a parameter here. *)
From Coq Require Import List.

Section Pipeline.
  Variables (ast text graph : Type).
  Variable format : ast -> text.
  Variable parse : text -> option ast.
  Variable compile_ast : ast -> option graph.

  Definition compile (t : text) : option graph :=
    match parse t with
    | Some a => compile_ast a
    | None => None
    end.

  (* what an edit returns for the AST a it has produced by surgery: the graph and the AST it carries *)
  Definition recompile (a : ast) : option (graph * ast) :=
    match parse (format a) with
    | Some a' => option_map (fun g => (g, a')) (compile_ast a')
    | None => None
    end.

  (* the mutation "skip the format step": compile the edited AST itself *)
  Definition recompile_unformatted (a : ast) : option (graph * ast) :=
    option_map (fun g => (g, a)) (compile_ast a).
End Pipeline.
