(* Executable checker for C36 cases: the three observables taken after one successful edit. *)
From Coq Require Import List NArith Bool.
Import ListNotations.
Require Import V.Lib.RunCases.
Require Export V.C38.Spec V.C37.Model V.C41.Tree V.C41.Check.
Open Scope N_scope.

(* kind: 1 create object, 2 create connection, 3 set (object), 4 set (connection), 5 delete object,
   6 delete connection, 7/8 delete attribute, 9 rename, 10 move, 11 reconnect, 12 import update
   compiles:   d2format.Format(returned.AST) compiles
   returned:   every board of the returned graph    (import update: of the original text)
   recompiled: every board of the compilation of that text (import update: of the updated text, with the
               file renamed accordingly)
   text / fmt: that text, and d2format.Format(d2parser.Parse(text)) *)
Inductive case := KEdit (kind : N) (compiles : bool) (returned recompiled : bt) (text fmt : list N).

Definition check_case (c : case) : list N :=
  match c with
  | KEdit _ compiles ret rec text fmt =>
      flag compiles 10
      ++ flag (negb compiles || gt_eqb bc_eqb ret rec) 11
      ++ flag (bytes_eqb text fmt) 12
  end.
