(* C03 — string level: the three scanners read back what the printer writes for a string node of F,
   whatever follows it (generalises the C05 inversion lemmas to a non-empty rest and to raw texts). *)
From Coq Require Import List NArith Bool Arith Lia.
Import ListNotations.
Require Import V.Gen.C05Tables V.C05.Model V.C05.Proofs V.C03.Format.
Open Scope N_scope.

(* ------------------------------------------------------------------ small facts *)

Lemma andb4 a b c d : a && b && c && d = true -> a = true /\ b = true /\ c = true /\ d = true.
Proof. intro H. repeat (apply andb_prop in H as [H ?]). auto. Qed.

Lemma negb_t b : negb b = true -> b = false.  Proof. destruct b; [discriminate|reflexivity]. Qed.

Lemma plain_unq_key c : plain_unq true c = true ->
  is_top_delim c = false /\ (c =? cBSL) = false /\ is_key_delim c = false /\ (c =? cDASH) = false.
Proof.
  unfold plain_unq. intro H. apply andb_prop in H as [H H3]. apply andb_prop in H as [H1 H2].
  apply andb_prop in H3 as [H3 H4]. repeat split; apply negb_t; assumption.
Qed.

Lemma plain_unq_val c : plain_unq false c = true ->
  is_top_delim c = false /\ (c =? cBSL) = false /\ (c =? cDOLLAR) = false.
Proof.
  unfold plain_unq. intro H. apply andb_prop in H as [H H3]. apply andb_prop in H as [H1 H2].
  repeat split; apply negb_t; assumption.
Qed.

(* ------------------------------------------------------------------ unquoted: single steps of the scanner *)

Lemma scan_unq_plain inKey c l av ar : plain_unq inKey c = true ->
  scan_unq_r inKey (c :: l) av ar = scan_unq_r inKey l (av ++ [c]) (ar ++ [c]).
Proof.
  intro P. destruct inKey.
  - destruct (plain_unq_key c P) as [T [B [K D]]]. cbn [scan_unq_r]. rewrite T, K, D, B. reflexivity.
  - destruct (plain_unq_val c P) as [T [B D]]. cbn [scan_unq_r]. rewrite T, D, B. reflexivity.
Qed.

Lemma scan_unq_esc inKey c2 l av ar : (c2 =? cNL) = false ->
  scan_unq_r inKey (cBSL :: c2 :: l) av ar = scan_unq_r inKey l (av ++ [decode_escape c2]) (ar ++ [cBSL; c2]).
Proof.
  intro H. cbn [scan_unq_r]. change (is_top_delim cBSL) with false. change (is_key_delim cBSL) with false.
  change (cBSL =? cDASH) with false. change (cBSL =? cDOLLAR) with false. change (cBSL =? cBSL) with true.
  rewrite !andb_false_r. cbn iota. rewrite H. reflexivity.
Qed.

Lemma scan_unq_dash c2 l av ar : plain_unq true c2 = true -> (c2 =? cSTAR) = false ->
  scan_unq_r true (cDASH :: c2 :: l) av ar = scan_unq_r true l ((av ++ [cDASH]) ++ [c2]) ((ar ++ [cDASH]) ++ [c2]).
Proof.
  intros P S. destruct (plain_unq_key c2 P) as [T [B [K D]]].
  assert (G : (c2 =? cGT) = false).
  { unfold is_key_delim in K. repeat (apply orb_false_elim in K as [K ?]). assumption. }
  cbn [scan_unq_r]. change (is_top_delim cDASH) with false. change (is_key_delim cDASH) with false.
  change (cDASH =? cDASH) with true. cbn [andb]. rewrite T, D, G, S, B. reflexivity.
Qed.

Lemma unesc_plain c tl : (c =? cBSL) = false -> unesc (c :: tl) = c :: unesc tl.
Proof. intro H. cbn [unesc]. rewrite H. reflexivity. Qed.

Lemma unesc_esc c2 tl : unesc (cBSL :: c2 :: tl) = decode_escape c2 :: unesc tl.
Proof. reflexivity. Qed.

(* every token of a well-formed raw text is consumed independently of what follows the text *)
Lemma scan_unq_toks inKey : forall n r, (length r <= n)%nat -> toks_ok inKey r = true ->
  forall rest av ar, scan_unq_r inKey (r ++ rest) av ar = scan_unq_r inKey rest (av ++ unesc r) (ar ++ r).
Proof.
  induction n as [|n IH]; intros r Hn Hok rest av ar.
  - destruct r; [|simpl in Hn; lia]. simpl. rewrite !app_nil_r. reflexivity.
  - destruct r as [|c tl]; [simpl; rewrite !app_nil_r; reflexivity|].
    cbn [toks_ok] in Hok. destruct (c =? cBSL) eqn:EB.
    + apply N.eqb_eq in EB. subst c. destruct tl as [|c2 tl2]; [discriminate Hok|].
      apply andb_prop in Hok as [H1 H2]. apply negb_t in H1.
      change ((cBSL :: c2 :: tl2) ++ rest) with (cBSL :: c2 :: (tl2 ++ rest)).
      rewrite scan_unq_esc by exact H1. rewrite IH; [|simpl in Hn; lia|exact H2].
      rewrite unesc_esc. rewrite !app_assoc1. rewrite <- !app_assoc. reflexivity.
    + destruct (inKey && (c =? cDASH)) eqn:ED.
      * apply andb_prop in ED as [Ek Ed]. subst inKey. apply N.eqb_eq in Ed. subst c.
        destruct tl as [|c2 tl2]; [discriminate Hok|].
        apply andb_prop in Hok as [H12 H3]. apply andb_prop in H12 as [H1 H2]. apply negb_t in H2.
        destruct (plain_unq_key c2 H1) as [T [B [K D]]].
        cbn [toks_ok] in H3. rewrite B, D in H3. cbn [andb] in H3. rewrite H1 in H3. cbn [andb] in H3.
        change ((cDASH :: c2 :: tl2) ++ rest) with (cDASH :: c2 :: (tl2 ++ rest)).
        rewrite scan_unq_dash by assumption. rewrite IH; [|simpl in Hn; lia|exact H3].
        rewrite (unesc_plain cDASH) by reflexivity. rewrite (unesc_plain c2) by exact B.
        rewrite <- !app_assoc. reflexivity.
      * apply andb_prop in Hok as [H1 H2].
        change ((c :: tl) ++ rest) with (c :: (tl ++ rest)).
        rewrite scan_unq_plain by exact H1. rewrite IH; [|simpl in Hn; lia|exact H2].
        rewrite (unesc_plain c) by exact EB. rewrite !app_assoc1. reflexivity.
Qed.

(* what stops the unquoted scanner *)
Definition stop_ok (inKey : bool) (rest : str) : bool :=
  match rest with [] => true | c :: _ => is_top_delim c || (inKey && is_key_delim c) end.

Lemma scan_unq_stop inKey rest av ar : stop_ok inKey rest = true ->
  scan_unq_r inKey rest av ar = POk (av, ar, rest).
Proof.
  destruct rest as [|c tl]; [reflexivity|]. cbn [stop_ok]. intro H. cbn [scan_unq_r].
  destruct (is_top_delim c); [reflexivity|]. cbn [orb] in H. rewrite H. reflexivity.
Qed.

Lemma scan_unq_wf inKey r rest : toks_ok inKey r = true -> stop_ok inKey rest = true ->
  scan_unq_r inKey (r ++ rest) [] [] = POk (unesc r, r, rest).
Proof.
  intros H1 H2. rewrite (scan_unq_toks inKey (length r) r (le_n _) H1). cbn [app].
  apply scan_unq_stop. exact H2.
Qed.

(* a value followed by " {" (the primary value of a key with a map) *)
Lemma scan_unq_wf_brace r rest : toks_ok false r = true ->
  scan_unq_r false (r ++ cSP :: cLC :: rest) [] [] = POk (unesc r ++ [cSP], r ++ [cSP], cLC :: rest).
Proof.
  intro H1. rewrite (scan_unq_toks false (length r) r (le_n _) H1). cbn [app].
  rewrite scan_unq_plain by reflexivity. apply scan_unq_stop. reflexivity.
Qed.

(* ------------------------------------------------------------------ trimming *)

Lemma trim_right_snoc_space s c : is_space c = true -> trim_right (s ++ [c]) = trim_right s.
Proof.
  intro Hc. induction s as [|x xs IH].
  - simpl. rewrite Hc. reflexivity.
  - change ((x :: xs) ++ [c]) with (x :: (xs ++ [c])).
    cbn [trim_right]. rewrite IH. reflexivity.
Qed.

Lemma last_cons_ne {A} (x : A) l d : l <> [] -> last (x :: l) d = last l d.
Proof. destruct l; [congruence|reflexivity]. Qed.

(* ------------------------------------------------------------------ parse_string_r on an unquoted raw text *)

Lemma unq_ok_parts inKey r : unq_ok inKey r = true ->
  toks_ok inKey r = true /\ first_ok inKey r = true /\ is_space (last r 0) = false
  /\ trim_right (unesc r) <> [].
Proof.
  unfold unq_ok. intro H. apply andb4 in H as [H1 [H2 [H3 H4]]]. repeat split; try assumption.
  - apply negb_t. exact H3.
  - destruct (trim_right (unesc r)); [discriminate H4|discriminate].
Qed.

Lemma first_ok_head inKey r : first_ok inKey r = true ->
  exists c tl, r = c :: tl /\ is_space c = false /\ (c =? cDQ) = false /\ (c =? cSQ) = false /\ (c =? cPIPE) = false
               /\ (if inKey then (c =? cLP) = false /\ (c =? 33) = false
                   else (c =? cAT) = false /\ starts_with [cDOT; cDOT; cDOT; cAT] r = false).
Proof.
  destruct r as [|c tl]; [discriminate|]. cbn [first_ok]. intro H.
  apply andb_prop in H as [H H5]. apply andb4 in H as [H1 [H2 [H3 H4]]].
  exists c, tl. repeat split; try (apply negb_t; assumption).
  destruct inKey; apply andb_prop in H5 as [A B]; split; apply negb_t; assumption.
Qed.

Lemma starts_with_app4 (r rest : str) : (4 <= length r)%nat \/ True -> True.
Proof. auto. Qed.

(* the "...@" test looks at four runes: it is decided inside r ++ rest; for keys the first rune is never '.' *)
Lemma starts_dots_key c tl : is_key_delim c = false -> starts_with [cDOT; cDOT; cDOT; cAT] (c :: tl) = false.
Proof.
  intro K. unfold starts_with. cbn [length firstn str_eqb].
  assert ((cDOT =? c) = false) as ->.
  { unfold is_key_delim in K. repeat (apply orb_false_elim in K as [K ?]).
    rewrite N.eqb_sym. assumption. }
  reflexivity.
Qed.

Lemma parse_string_unq_gen inKey r rest v raw rest' :
  unq_ok inKey r = true ->
  starts_with [cDOT; cDOT; cDOT; cAT] (r ++ rest) = false ->
  scan_unq_r inKey (r ++ rest) [] [] = POk (v, raw, rest') ->
  trim_right v = trim_right (unesc r) -> trim_right raw = r ->
  parse_string_r inKey (r ++ rest) = POk (Some (SUnq r), rest').
Proof.
  intros Hok Hdots Hscan Hv Hraw.
  destruct (unq_ok_parts inKey r Hok) as [Ht [Hf [Hl Hne]]].
  destruct r as [|c tl]; [discriminate Hf|].
  destruct (first_ok_head inKey (c :: tl) Hf) as [c' [tl' [E [Hsp [Hdq [Hsq [Hp _]]]]]]].
  injection E as <- <-.
  change ((c :: tl) ++ rest) with (c :: (tl ++ rest)) in *.
  unfold parse_string_r. rewrite Hdq, Hsq, Hp. rewrite Hdots. rewrite Hscan. rewrite Hv, Hraw.
  destruct (trim_right (unesc (c :: tl))) eqn:Et; [congruence|].
  rewrite str_eqb_refl. reflexivity.
Qed.

Lemma toks_first_key c tl : toks_ok true (c :: tl) = true -> is_key_delim c = false.
Proof.
  cbn [toks_ok]. destruct (c =? cBSL) eqn:EB.
  - apply N.eqb_eq in EB. subst c. reflexivity.
  - destruct (c =? cDASH) eqn:ED.
    + apply N.eqb_eq in ED. subst c. reflexivity.
    + cbn [andb]. intro H. apply andb_prop in H as [H _]. apply plain_unq_key in H. tauto.
Qed.

Lemma firstn4_app (r rest : str) c1 c2 c3 c4 tl :
  r = c1 :: c2 :: c3 :: c4 :: tl -> firstn 4 (r ++ rest) = firstn 4 r.
Proof. intro E. subst r. reflexivity. Qed.

(* in a value, what follows the raw text is a delimiter or " {": never '.', '@' *)
Lemma starts_dots_val r rest : first_ok false r = true ->
  match rest with [] => True | c :: _ => (c =? cDOT) = false /\ (c =? cAT) = false end ->
  starts_with [cDOT; cDOT; cDOT; cAT] (r ++ rest) = false.
Proof.
  intros Hf Hrest. destruct (first_ok_head false r Hf) as [c [tl [E [_ [_ [_ [_ [_ Hd]]]]]]]].
  unfold starts_with in *. cbn [length] in *.
  (* decide on the length of r *)
  destruct r as [|c1 [|c2 [|c3 [|c4 t]]]]; try discriminate.
  - cbn [app firstn]. destruct rest as [|x xs].
    + cbn [str_eqb]. destruct (cDOT =? c1); reflexivity.
    + destruct Hrest as [Hx _]. cbn [firstn str_eqb]. destruct (cDOT =? c1); [|reflexivity]. cbn [andb].
      rewrite (N.eqb_sym cDOT x), Hx. reflexivity.
  - cbn [app firstn]. destruct rest as [|x xs].
    + cbn [str_eqb]. destruct (cDOT =? c1); [|reflexivity]. destruct (cDOT =? c2); reflexivity.
    + destruct Hrest as [Hx _]. cbn [firstn str_eqb]. destruct (cDOT =? c1); [|reflexivity].
      destruct (cDOT =? c2); [|reflexivity]. cbn [andb]. rewrite (N.eqb_sym cDOT x), Hx. reflexivity.
  - cbn [app firstn]. destruct rest as [|x xs].
    + cbn [str_eqb]. destruct (cDOT =? c1); [|reflexivity]. destruct (cDOT =? c2); [|reflexivity].
      destruct (cDOT =? c3); reflexivity.
    + destruct Hrest as [_ Hx]. cbn [firstn str_eqb]. destruct (cDOT =? c1); [|reflexivity].
      destruct (cDOT =? c2); [|reflexivity]. destruct (cDOT =? c3); [|reflexivity]. cbn [andb].
      rewrite (N.eqb_sym cAT x), Hx. reflexivity.
  - exact Hd.
Qed.

Lemma trim_id_unq inKey r : unq_ok inKey r = true -> trim_right r = r.
Proof.
  intro H. destruct (unq_ok_parts inKey r H) as [_ [Hf [Hl _]]].
  apply trim_right_id; [|exact Hl]. destruct r; [discriminate Hf|discriminate].
Qed.

(* key segment: followed by '.', ':' or a top-level delimiter *)
Lemma parse_string_unq_key r rest : unq_ok true r = true -> stop_ok true rest = true ->
  parse_string_r true (r ++ rest) = POk (Some (SUnq r), rest).
Proof.
  intros Hok Hstop. destruct (unq_ok_parts true r Hok) as [Ht [Hf _]].
  apply (parse_string_unq_gen true r rest (unesc r) r rest Hok).
  - destruct r as [|c tl]; [discriminate Hf|]. apply starts_dots_key. apply (toks_first_key c tl Ht).
  - apply scan_unq_wf; assumption.
  - reflexivity.
  - apply (trim_id_unq true r Hok).
Qed.

Lemma stop_val_not_dot rest : stop_ok false rest = true ->
  match rest with [] => True | c :: _ => (c =? cDOT) = false /\ (c =? cAT) = false end.
Proof.
  destruct rest as [|c tl]; [trivial|]. cbn [stop_ok]. rewrite orb_false_r. unfold is_top_delim. intro H.
  repeat (apply orb_prop in H as [H|H]); apply N.eqb_eq in H; subst c; split; reflexivity.
Qed.

(* value: followed by a top-level delimiter *)
Lemma parse_string_unq_val r rest : unq_ok false r = true -> stop_ok false rest = true ->
  parse_string_r false (r ++ rest) = POk (Some (SUnq r), rest).
Proof.
  intros Hok Hstop. destruct (unq_ok_parts false r Hok) as [Ht [Hf _]].
  apply (parse_string_unq_gen false r rest (unesc r) r rest Hok).
  - apply starts_dots_val; [exact Hf|]. apply stop_val_not_dot. exact Hstop.
  - apply scan_unq_wf; assumption.
  - reflexivity.
  - apply (trim_id_unq false r Hok).
Qed.

(* primary value: followed by " {" *)
Lemma parse_string_unq_brace r rest : unq_ok false r = true ->
  parse_string_r false (r ++ cSP :: cLC :: rest) = POk (Some (SUnq r), cLC :: rest).
Proof.
  intros Hok. destruct (unq_ok_parts false r Hok) as [Ht [Hf _]].
  apply (parse_string_unq_gen false r _ (unesc r ++ [cSP]) (r ++ [cSP]) _ Hok).
  - apply starts_dots_val; [exact Hf|]. split; reflexivity.
  - apply scan_unq_wf_brace. exact Ht.
  - apply trim_right_snoc_space. reflexivity.
  - rewrite trim_right_snoc_space by reflexivity. apply (trim_id_unq false r Hok).
Qed.

(* ------------------------------------------------------------------ double quoted *)

Lemma scan_dq_wf inKey : forall n r, (length r <= n)%nat -> dq_ok inKey r = true ->
  forall rest av ar, scan_dq_r inKey (r ++ cDQ :: rest) av ar = POk (av ++ unesc r, ar ++ r, rest).
Proof.
  induction n as [|n IH]; intros r Hn Hok rest av ar.
  - destruct r; [|simpl in Hn; lia]. simpl. rewrite !app_nil_r.
    change (cDQ =? cNL) with false. change (cDQ =? cDOLLAR) with false. rewrite andb_false_r. reflexivity.
  - destruct r as [|c tl].
    + simpl. rewrite !app_nil_r.
      change (cDQ =? cNL) with false. change (cDQ =? cDOLLAR) with false. rewrite andb_false_r. reflexivity.
    + cbn [dq_ok] in Hok. destruct (c =? cBSL) eqn:EB.
      * apply N.eqb_eq in EB. subst c. destruct tl as [|c2 tl2]; [discriminate Hok|].
        apply andb_prop in Hok as [H1 H2]. apply negb_t in H1.
        change ((cBSL :: c2 :: tl2) ++ cDQ :: rest) with (cBSL :: c2 :: (tl2 ++ cDQ :: rest)).
        cbn [scan_dq_r]. change (cBSL =? cNL) with false. change (cBSL =? cDOLLAR) with false.
        rewrite andb_false_r. change (cBSL =? cDQ) with false. change (cBSL =? cBSL) with true. cbn iota.
        rewrite H1. rewrite IH; [|simpl in Hn; lia|exact H2].
        rewrite unesc_esc. rewrite <- !app_assoc. reflexivity.
      * apply andb4 in Hok as [H1 [H2 [H3 H4]]]. apply negb_t in H1. apply negb_t in H2.
        change ((c :: tl) ++ cDQ :: rest) with (c :: (tl ++ cDQ :: rest)).
        cbn [scan_dq_r]. rewrite H2.
        assert ((negb inKey && (c =? cDOLLAR)) = false) as ->.
        { destruct inKey; [reflexivity|]. cbn [negb andb orb] in *. apply negb_t in H3. exact H3. }
        rewrite H1, EB. rewrite IH; [|simpl in Hn; lia|exact H4].
        rewrite (unesc_plain c) by exact EB. rewrite !app_assoc1. reflexivity.
Qed.

Lemma parse_string_dq inKey r rest : dq_ok inKey r = true ->
  parse_string_r inKey (cDQ :: r ++ cDQ :: rest) = POk (Some (SDq r), rest).
Proof.
  intro H. unfold parse_string_r. change (cDQ =? cDQ) with true. cbn iota.
  rewrite (scan_dq_wf inKey (length r) r (le_n _) H). reflexivity.
Qed.

(* ------------------------------------------------------------------ single quoted *)

Lemma scan_sq_wf s : forall acc rest,
  mem cNL s = false ->
  match rest with r :: _ => (r =? cSQ) = false | [] => True end ->
  scan_sq_r (escape_sq s ++ cSQ :: rest) acc = POk (acc ++ s, rest).
Proof.
  induction s as [|r tl IH]; intros acc rest Hnl Hrest.
  - simpl. rewrite app_nil_r. destruct rest as [|x xs]; [reflexivity|]. rewrite Hrest. reflexivity.
  - simpl in Hnl. apply orb_false_elim in Hnl as [H1 H2].
    assert (Rnl : (r =? cNL) = false) by (rewrite N.eqb_sym; exact H1).
    cbn [escape_sq]. destruct (r =? cSQ) eqn:E1.
    + apply N.eqb_eq in E1. subst r.
      change ((cSQ :: cSQ :: escape_sq tl) ++ cSQ :: rest) with (cSQ :: cSQ :: (escape_sq tl ++ cSQ :: rest)).
      cbn [scan_sq_r]. change (cSQ =? cNL) with false. change (cSQ =? cSQ) with true. cbn iota.
      rewrite IH by assumption. rewrite app_assoc1. reflexivity.
    + rewrite Rnl.
      change ((r :: escape_sq tl) ++ cSQ :: rest) with (r :: (escape_sq tl ++ cSQ :: rest)).
      cbn [scan_sq_r]. rewrite Rnl, E1.
      destruct (r =? cBSL) eqn:E2.
      * pose proof (escape_sq_hd_not_nl tl rest H2) as Hhd.
        destruct (escape_sq tl ++ cSQ :: rest) as [|r2 tl2] eqn:Etl.
        -- destruct (escape_sq tl); discriminate Etl.
        -- rewrite Hhd. rewrite <- Etl. rewrite IH by assumption. rewrite app_assoc1. reflexivity.
      * rewrite IH by assumption. rewrite app_assoc1. reflexivity.
Qed.

Lemma parse_string_sq inKey v rest : mem cNL v = false ->
  match rest with r :: _ => (r =? cSQ) = false | [] => True end ->
  parse_string_r inKey (cSQ :: escape_sq v ++ cSQ :: rest) = POk (Some (SSq v), rest).
Proof.
  intros H1 H2. unfold parse_string_r. change (cSQ =? cDQ) with false. change (cSQ =? cSQ) with true. cbn iota.
  rewrite (scan_sq_wf v [] rest H1 H2). reflexivity.
Qed.

(* ------------------------------------------------------------------ any string node of F *)

Lemma stop_not_sq inKey rest : stop_ok inKey rest = true ->
  match rest with r :: _ => (r =? cSQ) = false | [] => True end.
Proof.
  destruct rest as [|c tl]; [trivial|]. cbn [stop_ok]. intro H.
  apply orb_prop in H as [H|H].
  - unfold is_top_delim in H. repeat (apply orb_prop in H as [H|H]); apply N.eqb_eq in H; subst c; reflexivity.
  - apply andb_prop in H as [_ H]. unfold is_key_delim in H.
    repeat (apply orb_prop in H as [H|H]); apply N.eqb_eq in H; subst c; reflexivity.
Qed.

(* [s] is printed as it is (no keyword lower-casing left to do) *)
Definition fmt_raw (s : snode) : str :=
  match s with SUnq r => r | SDq r => cDQ :: r ++ [cDQ] | SSq v => cSQ :: escape_sq v ++ [cSQ] end.

Lemma parse_string_node inKey s rest : str_ok inKey s = true -> stop_ok inKey rest = true ->
  parse_string_r inKey (fmt_raw s ++ rest) = POk (Some s, rest).
Proof.
  intros Hok Hstop. destruct s as [r|r|v]; cbn [fmt_raw str_ok] in *.
  - destruct inKey; [apply parse_string_unq_key|apply parse_string_unq_val]; assumption.
  - change ((cDQ :: r ++ [cDQ]) ++ rest) with (cDQ :: (r ++ [cDQ]) ++ rest). rewrite app_assoc1.
    apply parse_string_dq. exact Hok.
  - change ((cSQ :: escape_sq v ++ [cSQ]) ++ rest) with (cSQ :: (escape_sq v ++ [cSQ]) ++ rest). rewrite app_assoc1.
    apply parse_string_sq; [apply negb_t; exact Hok|]. apply (stop_not_sq inKey rest Hstop).
Qed.

(* value followed by " {": the scanner leaves either "{..." or " {..." *)
Lemma parse_string_node_brace s rest : str_ok false s = true ->
  exists rest', parse_string_r false (fmt_raw s ++ cSP :: cLC :: rest) = POk (Some s, rest')
                /\ skip_space rest' false = (false, cLC :: rest).
Proof.
  intros Hok. destruct s as [r|r|v]; cbn [fmt_raw str_ok] in *.
  - exists (cLC :: rest). split; [apply parse_string_unq_brace; exact Hok|reflexivity].
  - exists (cSP :: cLC :: rest). split; [|reflexivity].
    change ((cDQ :: r ++ [cDQ]) ++ cSP :: cLC :: rest) with (cDQ :: (r ++ [cDQ]) ++ cSP :: cLC :: rest).
    rewrite app_assoc1. apply parse_string_dq. exact Hok.
  - exists (cSP :: cLC :: rest). split; [|reflexivity].
    change ((cSQ :: escape_sq v ++ [cSQ]) ++ cSP :: cLC :: rest) with (cSQ :: (escape_sq v ++ [cSQ]) ++ cSP :: cLC :: rest).
    rewrite app_assoc1. apply parse_string_sq; [apply negb_t; exact Hok|reflexivity].
Qed.
