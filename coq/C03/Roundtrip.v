(* C03 — maps: parse_file (format_file a) = norm_file a for every AST of the fragment, any size and nesting. *)
From Coq Require Import List NArith Bool Arith Lia.
Import ListNotations.
Require Import V.Gen.C05Tables V.C05.Model V.C05.Proofs V.C03.Format V.C03.Proofs V.C03.Keys.
Open Scope N_scope.

(* ------------------------------------------------------------------ induction principle for the nested type *)

Fixpoint node_ind2 (P : node -> Prop)
  (H : forall g p pr h ns, Forall P ns -> P (Key g p pr h ns)) (n : node) : P n :=
  match n with
  | Key g p pr h ns =>
      H g p pr h ns ((fix go (l : list node) : Forall P l :=
                        match l with [] => Forall_nil P | x :: xs => Forall_cons x (node_ind2 P H x) (go xs) end) ns)
  end.

(* ------------------------------------------------------------------ shapes of the printed text *)

Definition items (d : nat) (ns : list node) : list (bool * str) := map (fun n => (gap_of n, fmt_node d n)) ns.

(* text between '{' and the rest after '}' *)
Definition body (d : nat) (ol : bool) (ns : list node) : str :=
  (if ol then join_inline (items d ns) else join_nested (S d) (items (S d) ns) ++ cNL :: indent d) ++ [cRC].

Definition prim_text (prim : option scalar) : str :=
  match prim with Some c => cCOLON :: cSP :: fmt_scalar c | None => [] end.

Lemma fmt_node_eq d g path prim h ns :
  fmt_node d (Key g path prim h ns) =
  fmt_path path ++ prim_text prim ++
  match h with
  | HNone => []
  | HScal c => sep_of prim ++ fmt_scalar c
  | HMap ol => match ns with [] => [] | _ => sep_of prim ++ cLC :: body d ol ns end
  end.
Proof. destruct h as [|c|ol]; [reflexivity|reflexivity|destruct ns; reflexivity]. Qed.

(* components of the normal form other than the gap flag *)
Definition norm_parts (n : node) : list snode * option scalar * vhead * list node :=
  match n with
  | Key _ path prim h ns =>
      let path' := map (norm_snode true) path in
      match h with
      | HMap ol =>
          match ns with
          | [] => match prim with Some c => (path', None, HScal c, []) | None => (path', None, HNone, []) end
          | _ => (path', prim, HMap ol, norm_nodes ol ns)
          end
      | _ => (path', prim, h, ns)
      end
  end.

Lemma norm_node_eq first inl n :
  norm_node first inl n =
  let '(p, pr, h, ns) := norm_parts n in Key (gap_of n && negb first && negb inl) p pr h ns.
Proof.
  destruct n as [g path prim h ns]. cbn [norm_node norm_parts gap_of].
  destruct h as [|c|ol]; try reflexivity. destruct ns as [|n1 tl]; [destruct prim; reflexivity|reflexivity].
Qed.

Definition has_nl (n : node) : bool :=
  match n with Key _ _ _ (HMap false) (_ :: _) => true | _ => false end.

(* ------------------------------------------------------------------ separators *)

Lemma skip_sep_stop c tl k : is_space c = false -> (c =? cSEMI) = false -> skip_sep (c :: tl) k = (k, c :: tl).
Proof. intros H1 H2. cbn [skip_sep]. rewrite H1, H2. reflexivity. Qed.

Lemma skip_sep_nl l k : skip_sep (cNL :: l) k = skip_sep l (S k).
Proof. reflexivity. Qed.

Lemma skip_sep_sp l k : skip_sep (cSP :: l) k = skip_sep l k.
Proof. reflexivity. Qed.

Lemma skip_sep_indent d l k : skip_sep (indent d ++ l) k = skip_sep l k.
Proof.
  unfold indent. induction (2 * d)%nat as [|j IH]; [reflexivity|].
  cbn [repeat app]. rewrite skip_sep_sp. exact IH.
Qed.

Lemma skip_sep_semi l k : skip_sep (cSEMI :: cSP :: l) k = skip_sep l k.
Proof. reflexivity. Qed.

(* what follows a printed declaration *)
Definition node_end (rest : str) : bool :=
  match rest with [] => true | c :: _ => (c =? cNL) || (c =? cSEMI) || (c =? cRC) end.

Lemma node_end_cases rest : node_end rest = true ->
  rest = [] \/ exists tl, rest = cNL :: tl \/ rest = cSEMI :: tl \/ rest = cRC :: tl.
Proof.
  destruct rest as [|c tl]; [left; reflexivity|]. cbn [node_end]. intro H. right. exists tl.
  repeat (apply orb_prop in H as [H|H]); apply N.eqb_eq in H; subst c; auto.
Qed.

Lemma node_end_path rest : node_end rest = true -> path_end rest = true.
Proof.
  intro H. destruct (node_end_cases rest H) as [->|[tl [->|[->| ->]]]]; reflexivity.
Qed.

Lemma node_end_stop rest : node_end rest = true -> stop_ok false rest = true.
Proof.
  intro H. destruct (node_end_cases rest H) as [->|[tl [->|[->| ->]]]]; reflexivity.
Qed.

Lemma node_end_ok_of rest : node_end rest = true -> node_end_ok rest = true.
Proof.
  intro H. destruct (node_end_cases rest H) as [->|[tl [->|[->| ->]]]]; try reflexivity.
  unfold node_end_ok. cbn [skip_space]. change (is_space cNL) with true. cbn iota.
  change (false || (cNL =? cNL)) with true.
  pose proof (skip_space_true tl) as T. destruct (skip_space tl true) as [b l2]. cbn [fst] in T. subst b.
  destruct l2; reflexivity.
Qed.

(* after a key without value: the parser looks past the white space and finds nothing for this key *)
Lemma after_key_none rest : node_end rest = true ->
  forall (A : Type) (done other : A) (f : N -> str -> A),
  (forall r1 tl1, (r1 =? cSEMI) || (r1 =? cRC) = true -> f r1 tl1 = done) ->
  (let '(nl, l1) := skip_space rest false in
   match l1 with [] => done | r1 :: tl1 => if nl then done else f r1 tl1 end) = done.
Proof.
  intros H A done other f Hf. destruct (node_end_cases rest H) as [->|[tl [->|[->| ->]]]].
  - reflexivity.
  - cbn [skip_space]. change (is_space cNL) with true. cbn iota. change (false || (cNL =? cNL)) with true.
    pose proof (skip_space_true tl) as T. destruct (skip_space tl true) as [b l2]. cbn [fst] in T. subst b.
    destruct l2; reflexivity.
  - rewrite skip_space_stop by reflexivity. apply Hf. reflexivity.
  - rewrite skip_space_stop by reflexivity. apply Hf. reflexivity.
Qed.

(* ------------------------------------------------------------------ board keywords *)

Lemma board_path_norm path : is_board_path (map (norm_snode true) path) = is_board_path path.
Proof.
  destruct path as [|s [|s2 tl]]; try reflexivity. cbn [map is_board_path]. rewrite norm_snode_idem. reflexivity.
Qed.

Section RT.
Variable is_num : str -> bool.

(* ------------------------------------------------------------------ values *)

Lemma parse_value_scalar (rec : str -> pres nres) c rest :
  wf_scalar is_num c = true -> node_end rest = true ->
  parse_value is_num rec (cSP :: fmt_scalar c ++ rest) = POk (None, HScal c, [], false, rest).
Proof.
  intros Hc Hend. destruct (scalar_snode is_num c Hc) as [Hok [Hcl Hfmt]].
  rewrite Hfmt. unfold parse_value. rewrite skip_space_sp.
  destruct (value_head is_num (snode_of c) rest Hok) as [x [t [Eh [Hsp [Hlb [Hat Hlc]]]]]].
  rewrite Eh. rewrite (skip_space_stop x t false Hsp). cbn iota beta. rewrite Hlb, Hat, Hlc. cbn [orb].
  rewrite <- Eh. rewrite (parse_string_node false (snode_of c) rest Hok (node_end_stop rest Hend)).
  rewrite Hcl.
  destruct (node_end_cases rest Hend) as [->|[tl [->|[->| ->]]]].
  - reflexivity.
  - cbn [skip_space]. change (is_space cNL) with true. cbn iota. change (false || (cNL =? cNL)) with true.
    pose proof (skip_space_true tl) as T. destruct (skip_space tl true) as [b l2]. cbn [fst] in T. subst b.
    destruct l2; reflexivity.
  - rewrite skip_space_stop by reflexivity. reflexivity.
  - rewrite skip_space_stop by reflexivity. reflexivity.
Qed.

Lemma parse_value_map (rec : str -> pres nres) B ns snl rest :
  rec B = POk (ns, snl, rest) ->
  parse_value is_num rec (cSP :: cLC :: B) = POk (None, HMap (negb snl), ns, snl, rest).
Proof.
  intro H. unfold parse_value. rewrite skip_space_sp. rewrite skip_space_stop by reflexivity.
  cbn iota beta. change (cLC =? cLB) with false. change (cLC =? cAT) with false. change (cLC =? cLC) with true.
  cbn [orb]. rewrite H. reflexivity.
Qed.

Lemma parse_value_prim_map (rec : str -> pres nres) c B ns snl rest :
  wf_scalar is_num c = true -> rec B = POk (ns, snl, rest) ->
  parse_value is_num rec (cSP :: fmt_scalar c ++ cSP :: cLC :: B) = POk (Some c, HMap (negb snl), ns, snl, rest).
Proof.
  intros Hc H. destruct (scalar_snode is_num c Hc) as [Hok [Hcl Hfmt]].
  rewrite Hfmt. unfold parse_value. rewrite skip_space_sp.
  destruct (value_head is_num (snode_of c) (cSP :: cLC :: B) Hok) as [x [t [Eh [Hsp [Hlb [Hat Hlc]]]]]].
  rewrite Eh. rewrite (skip_space_stop x t false Hsp). cbn iota beta. rewrite Hlb, Hat, Hlc. cbn [orb].
  rewrite <- Eh. destruct (parse_string_node_brace (snode_of c) B Hok) as [rest' [Hp Hs]].
  rewrite Hp. rewrite Hcl. rewrite Hs. cbn iota beta. change (cLC =? cLC) with true. cbn [negb andb].
  rewrite H. reflexivity.
Qed.

(* ------------------------------------------------------------------ one declaration *)

Definition kres_of (n : node) (rest : str) : kres :=
  let '(p, pr, h, ns) := norm_parts n in (p, pr, h, ns, has_nl n, rest).

Definition node_spec (n : node) : Prop :=
  forall f d inl rest,
    wf_node is_num inl n = true -> node_end rest = true ->
    (length (fmt_node d n ++ rest) <= f)%nat ->
    parse_mapkey is_num (parse_nodes is_num f true true) (fmt_node d n ++ rest) = POk (kres_of n rest).

Lemma wf_node_parts inl g path prim h ns : wf_node is_num inl (Key g path prim h ns) = true ->
  path <> [] /\ forallb wf_key path = true /\ is_board_path path = false
  /\ match h with
     | HNone => prim = None /\ ns = []
     | HScal c => prim = None /\ ns = [] /\ wf_scalar is_num c = true
     | HMap ol => (inl = true -> ol = true) /\ match prim with None => True | Some c => wf_scalar is_num c = true end
                  /\ forallb (wf_node is_num ol) ns = true
     end.
Proof.
  cbn [wf_node]. intro H. apply andb4 in H as [H1 [H2 [H3 H4]]].
  split; [destruct path; [discriminate H1|discriminate]|]. split; [exact H2|]. split; [apply negb_t; exact H3|].
  destruct h as [|c|ol].
  - apply andb_prop in H4 as [A B]. destruct prim; [discriminate A|]. destruct ns; [|discriminate B]. auto.
  - apply andb_prop in H4 as [AB C]. apply andb_prop in AB as [A B].
    destruct prim; [discriminate A|]. destruct ns; [|discriminate B]. auto.
  - apply andb_prop in H4 as [AB C]. apply andb_prop in AB as [A B]. split; [|split].
    + intro E. subst inl. exact A.
    + destruct prim; [exact B|exact I].
    + exact C.
Qed.

Lemma node_head d inl n rest : wf_node is_num inl n = true ->
  exists c tl, fmt_node d n ++ rest = c :: tl /\ key_head_ok c /\ starts_with [cDQ; cDQ; cDQ] (c :: tl) = false.
Proof.
  destruct n as [g path prim h ns]. intro H. destruct (wf_node_parts _ _ _ _ _ _ H) as [Hne [Hwf _]].
  rewrite fmt_node_eq. rewrite <- !app_assoc. apply path_head; [exact Hne|exact Hwf|apply wf_path_dq; exact Hwf].
Qed.

Lemma node_text_nonempty d inl n : wf_node is_num inl n = true -> (1 <= length (fmt_node d n))%nat.
Proof.
  destruct n as [g path prim h ns]. intro H. destruct (wf_node_parts _ _ _ _ _ _ H) as [Hne [Hwf _]].
  rewrite fmt_node_eq. rewrite app_length. pose proof (fmt_path_length path [] Hwf) as L. rewrite app_nil_r in L.
  destruct path; [congruence|]. cbn [length] in L. lia.
Qed.

(* parse_mapkey, after the key path has been read *)
Definition mapkey_cont (rec : str -> pres nres) (p : list snode) (after : str) : pres kres :=
    let done := POk (p, None, HNone, [], false, after) in
    let '(nl, l1) := skip_space after false in
    match l1 with
    | [] => done
    | r1 :: tl1 =>
        if nl then done
        else if (r1 =? cLP) || (r1 =? cLT) || (r1 =? cGT) || (r1 =? cDASH) then PUns
        else if (r1 =? cLC) || (r1 =? cCOLON) then
          match parse_value is_num rec (if r1 =? cLC then l1 else tl1) with
          | POk (prim, h, ns, snl, rest') => POk (p, prim, h, ns, snl, rest')
          | PErr => PErr | PUns => PUns
          end
        else done
    end.

Lemma mapkey_cont_none rec p rest : node_end rest = true ->
  mapkey_cont rec p rest = POk (p, None, HNone, [], false, rest).
Proof.
  intro H. unfold mapkey_cont. destruct (node_end_cases rest H) as [->|[tl [->|[->| ->]]]].
  - reflexivity.
  - cbn [skip_space]. change (is_space cNL) with true. cbn iota. change (false || (cNL =? cNL)) with true.
    pose proof (skip_space_true tl) as T. destruct (skip_space tl true) as [b l2]. cbn [fst] in T. subst b.
    destruct l2; reflexivity.
  - rewrite skip_space_stop by reflexivity. reflexivity.
  - rewrite skip_space_stop by reflexivity. reflexivity.
Qed.

Lemma mapkey_cont_colon rec p X :
  mapkey_cont rec p (cCOLON :: X) =
  match parse_value is_num rec X with
  | POk (prim, h, ns, snl, rest') => POk (p, prim, h, ns, snl, rest')
  | PErr => PErr | PUns => PUns
  end.
Proof. unfold mapkey_cont. rewrite skip_space_stop by reflexivity. reflexivity. Qed.

Lemma parse_mapkey_path (rec : str -> pres nres) path after :
  path <> [] -> forallb wf_key path = true -> path_end after = true ->
  parse_mapkey is_num rec (fmt_path path ++ after) = mapkey_cont rec (map (norm_snode true) path) after.
Proof.
  intros Hne Hwf Hend.
  destruct (path_head path after Hne Hwf (wf_path_dq path Hwf)) as [c [tl [Eh [[Hsp [Htop [Hkey [Hlp Hbang]]]] _]]]].
  unfold parse_mapkey. rewrite Eh.
  assert ((c =? cAMP) = false) as ->.
  { unfold is_key_delim in Hkey. repeat (apply orb_false_elim in Hkey as [Hkey ?]). assumption. }
  rewrite Hlp, Hbang. cbn [orb andb]. rewrite <- Eh.
  rewrite (parse_path_fmt path (S (length (fmt_path path ++ after))) [] after Hne Hwf Hend).
  - cbn [app]. destruct (map (norm_snode true) path) eqn:Em; [destruct path; [congruence|discriminate Em]|].
    reflexivity.
  - pose proof (fmt_path_length path after Hwf). lia.
  - apply wf_path_dq. exact Hwf.
Qed.

Lemma map_nonempty {A B} (f : A -> B) l : l <> [] -> map f l <> [].
Proof. destruct l; [congruence|discriminate]. Qed.

(* a declaration, given what the recursive call returns on the body of its map *)
Lemma parse_mapkey_node (rec : str -> pres nres) d inl g path prim h ns rest :
  wf_node is_num inl (Key g path prim h ns) = true -> node_end rest = true ->
  (forall ol, h = HMap ol -> ns <> [] -> rec (body d ol ns ++ rest) = POk (norm_nodes ol ns, negb ol, rest)) ->
  parse_mapkey is_num rec (fmt_node d (Key g path prim h ns) ++ rest) = POk (kres_of (Key g path prim h ns) rest).
Proof.
  intros Hwf Hend Hrec. destruct (wf_node_parts _ _ _ _ _ _ Hwf) as [Hne [Hkeys [_ Hh]]].
  rewrite fmt_node_eq. rewrite <- !app_assoc.
  unfold kres_of. cbn [norm_parts has_nl].
  destruct h as [|c|ol].
  - (* key only *)
    destruct Hh as [-> ->]. cbn [prim_text app].
    rewrite (parse_mapkey_path rec path rest Hne Hkeys (node_end_path rest Hend)).
    apply mapkey_cont_none. exact Hend.
  - (* key: scalar *)
    destruct Hh as [-> [-> Hc]]. cbn [prim_text sep_of app].
    rewrite parse_mapkey_path; [|assumption|assumption|reflexivity]. rewrite mapkey_cont_colon.
    rewrite (parse_value_scalar rec c rest Hc Hend). reflexivity.
  - destruct Hh as [Hinl [Hprim Hns]]. destruct ns as [|n1 tl].
    + (* empty map: printed as if there were no map *)
      replace (if ol then false else false) with false by (destruct ol; reflexivity).
      destruct prim as [c|].
      * cbn [prim_text app].
        rewrite parse_mapkey_path; [|assumption|assumption|reflexivity]. rewrite mapkey_cont_colon.
        rewrite (parse_value_scalar rec c rest Hprim Hend). reflexivity.
      * cbn [prim_text app].
        rewrite (parse_mapkey_path rec path rest Hne Hkeys (node_end_path rest Hend)).
        apply mapkey_cont_none. exact Hend.
    + specialize (Hrec ol eq_refl ltac:(discriminate)).
      destruct prim as [c|].
      * cbn [prim_text sep_of app].
        rewrite parse_mapkey_path; [|assumption|assumption|reflexivity]. rewrite mapkey_cont_colon.
        rewrite (parse_value_prim_map rec c _ _ _ _ Hprim Hrec). rewrite negb_involutive.
        destruct ol; reflexivity.
      * cbn [prim_text sep_of app].
        rewrite parse_mapkey_path; [|assumption|assumption|reflexivity]. rewrite mapkey_cont_colon.
        rewrite (parse_value_map rec _ _ _ _ Hrec). rewrite negb_involutive.
        destruct ol; reflexivity.
Qed.

(* ------------------------------------------------------------------ one step of the declaration loop *)

Lemma parse_nodes_step f nested first l k T rest path prim h ns snl1 :
  skip_sep l 0 = (k, T ++ rest) ->
  (exists c tl, T ++ rest = c :: tl /\ key_head_ok c /\ starts_with [cDQ; cDQ; cDQ] (c :: tl) = false) ->
  parse_mapkey is_num (parse_nodes is_num f true true) (T ++ rest) = POk (path, prim, h, ns, snl1, rest) ->
  is_board_path path = false -> node_end rest = true ->
  parse_nodes is_num (S f) nested first l =
    match parse_nodes is_num f nested false rest with
    | POk (more, snl2, rest') =>
        POk (Key (negb first && (2 <=? k)%nat) path prim h ns :: more, negb (Nat.eqb k 0) || snl1 || snl2, rest')
    | PErr => PErr | PUns => PUns
    end.
Proof.
  intros Hsk [c [tl [Eh [[Hsp [Htop [Hkey [Hlp Hbang]]]] H3]]]] Hmk Hb Hend.
  cbn [parse_nodes]. rewrite Hsk. rewrite Eh.
  assert ((c =? cRC) = false /\ (c =? cHASH) = false) as [-> ->].
  { unfold is_top_delim in Htop. repeat (apply orb_false_elim in Htop as [Htop ?]). auto. }
  assert ((c =? cDOT) = false) as ->.
  { unfold is_key_delim in Hkey. repeat (apply orb_false_elim in Hkey as [Hkey ?]). assumption. }
  rewrite H3. cbn [orb]. rewrite <- Eh. rewrite Hmk. rewrite Hb.
  rewrite (node_end_ok_of rest Hend). cbn [negb]. reflexivity.
Qed.

(* ------------------------------------------------------------------ lists of declarations *)

Lemma join_rest_head d it its X : exists t, join_rest d (it :: its) ++ X = cNL :: t.
Proof. destruct it as [g t0]. cbn [join_rest]. destruct g; cbn [app]; eexists; reflexivity. Qed.

Lemma norm_node_key first inl n :
  norm_node first inl n =
  Key (gap_of n && negb first && negb inl) (fst (fst (fst (norm_parts n)))) (snd (fst (fst (norm_parts n))))
      (snd (fst (norm_parts n))) (snd (norm_parts n)).
Proof. rewrite norm_node_eq. destruct (norm_parts n) as [[[p pr] h] ns]. reflexivity. Qed.

Lemma kres_of_eq n rest :
  kres_of n rest = (fst (fst (fst (norm_parts n))), snd (fst (fst (norm_parts n))), snd (fst (norm_parts n)),
                    snd (norm_parts n), has_nl n, rest).
Proof. unfold kres_of. destruct (norm_parts n) as [[[p pr] h] ns]. reflexivity. Qed.

Lemma norm_parts_path n : fst (fst (fst (norm_parts n))) = map (norm_snode true) (match n with Key _ p _ _ _ => p end).
Proof.
  destruct n as [g path prim h ns]. cbn [norm_parts]. destruct h as [|c|ol]; try reflexivity.
  destruct ns; [destruct prim; reflexivity|reflexivity].
Qed.

Lemma wf_not_board inl n : wf_node is_num inl n = true -> is_board_path (fst (fst (fst (norm_parts n)))) = false.
Proof.
  intro H. rewrite norm_parts_path. destruct n as [g path prim h ns].
  destruct (wf_node_parts _ _ _ _ _ _ H) as [_ [_ [Hb _]]]. rewrite board_path_norm. exact Hb.
Qed.

Lemma has_nl_inline n : wf_node is_num true n = true -> has_nl n = false.
Proof.
  destruct n as [g path prim h ns]. intro H. destruct (wf_node_parts _ _ _ _ _ _ H) as [_ [_ [_ Hh]]].
  destruct h as [|c|ol]; try reflexivity. destruct Hh as [Hol _]. rewrite (Hol eq_refl). reflexivity.
Qed.

(* multi-line: the declarations after the first one, then TAIL (the closing of the map / the end of the file) *)
Lemma parse_rest_ml nested TAIL fin d' :
  (forall f, (length TAIL < f)%nat -> parse_nodes is_num f nested false TAIL = POk ([], true, fin)) ->
  (exists t, TAIL = cNL :: t) ->
  forall ns, Forall node_spec ns -> forallb (wf_node is_num false) ns = true ->
  forall f, (length (join_rest d' (items d' ns) ++ TAIL) < f)%nat ->
  parse_nodes is_num f nested false (join_rest d' (items d' ns) ++ TAIL) = POk (map (norm_node false false) ns, true, fin).
Proof.
  intros Htail [t0 Et0] ns. induction ns as [|n tl IH]; intros Hspec Hwf f Hf.
  - cbn [items map join_rest app] in *. apply Htail. exact Hf.
  - pose proof (Forall_inv Hspec) as Hn. pose proof (Forall_inv_tail Hspec) as Htl. cbn [forallb] in Hwf. apply andb_prop in Hwf as [Hwn Hwtl].
    destruct f as [|f]; [lia|].
    set (T := fmt_node d' n). set (rest := join_rest d' (items d' tl) ++ TAIL).
    assert (Etext : join_rest d' (items d' (n :: tl)) ++ TAIL
                    = (if gap_of n then [cNL] else []) ++ cNL :: indent d' ++ T ++ rest).
    { cbn [items map join_rest]. fold (items d' tl). rewrite <- !app_assoc. cbn [app]. rewrite <- !app_assoc. reflexivity. }
    rewrite Etext in Hf |- *.
    assert (Hend : node_end rest = true).
    { subst rest. destruct tl as [|n2 tl2]; [cbn [items map join_rest app]; rewrite Et0; reflexivity|].
      cbn [items map]. destruct (join_rest_head d' (gap_of n2, fmt_node d' n2) (map (fun n0 => (gap_of n0, fmt_node d' n0)) tl2) TAIL) as [t Et].
      rewrite Et. reflexivity. }
    destruct (node_head d' false n rest Hwn) as [c [tlc [Eh [Hko H3]]]]. fold T in Eh.
    assert (Hsk : skip_sep ((if gap_of n then [cNL] else []) ++ cNL :: indent d' ++ T ++ rest) 0
                  = ((if gap_of n then 2 else 1)%nat, T ++ rest)).
    { destruct Hko as [Hsp [Htop _]].
      assert (Hsemi : (c =? cSEMI) = false).
      { unfold is_top_delim in Htop. repeat (apply orb_false_elim in Htop as [Htop ?]). assumption. }
      destruct (gap_of n); cbn [app]; rewrite !skip_sep_nl, skip_sep_indent, Eh; apply skip_sep_stop; assumption. }
    assert (Hlen : (length (T ++ rest) <= f)%nat).
    { clear - Hf. destruct (gap_of n); cbn [app length] in Hf; rewrite !app_length in Hf; rewrite app_length; lia. }
    pose proof (Hn f d' false rest Hwn Hend Hlen) as Hmk. fold T in Hmk. rewrite kres_of_eq in Hmk.
    rewrite (parse_nodes_step f nested false _ _ T rest _ _ _ _ _ Hsk (ex_intro _ c (ex_intro _ tlc (conj Eh (conj Hko H3)))) Hmk
               (wf_not_board false n Hwn) Hend).
    subst rest. rewrite IH; [|exact Htl|exact Hwtl|].
    + cbn [map]. rewrite (norm_node_key false false n). cbn [negb andb]. rewrite !andb_true_r.
      destruct (gap_of n); reflexivity.
    + pose proof (node_text_nonempty d' false n Hwn) as L1. fold T in L1. rewrite app_length in Hlen. lia.
Qed.

(* one line: the declarations after the first one, then TAIL *)
Lemma parse_rest_inl nested TAIL fin d :
  (forall f, (length TAIL < f)%nat -> parse_nodes is_num f nested false TAIL = POk ([], false, fin)) ->
  (exists t, TAIL = cRC :: t) ->
  forall ns, Forall node_spec ns -> forallb (wf_node is_num true) ns = true ->
  forall f, (length (inl_rest (items d ns) ++ TAIL) < f)%nat ->
  parse_nodes is_num f nested false (inl_rest (items d ns) ++ TAIL) = POk (map (norm_node false true) ns, false, fin).
Proof.
  intros Htail [t0 Et0] ns. induction ns as [|n tl IH]; intros Hspec Hwf f Hf.
  - cbn [items map inl_rest app] in *. apply Htail. exact Hf.
  - pose proof (Forall_inv Hspec) as Hn. pose proof (Forall_inv_tail Hspec) as Htl. cbn [forallb] in Hwf. apply andb_prop in Hwf as [Hwn Hwtl].
    destruct f as [|f]; [lia|].
    set (T := fmt_node d n). set (rest := inl_rest (items d tl) ++ TAIL).
    assert (Etext : inl_rest (items d (n :: tl)) ++ TAIL = cSEMI :: cSP :: T ++ rest).
    { cbn [items map inl_rest]. fold (items d tl). cbn [app]. rewrite <- !app_assoc. reflexivity. }
    rewrite Etext in Hf |- *.
    assert (Hend : node_end rest = true).
    { subst rest. destruct tl as [|n2 tl2]; [cbn [items map inl_rest app]; rewrite Et0; reflexivity|reflexivity]. }
    destruct (node_head d true n rest Hwn) as [c [tlc [Eh [Hko H3]]]]. fold T in Eh.
    assert (Hsk : skip_sep (cSEMI :: cSP :: T ++ rest) 0 = (0%nat, T ++ rest)).
    { destruct Hko as [Hsp [Htop _]].
      assert (Hsemi : (c =? cSEMI) = false).
      { unfold is_top_delim in Htop. repeat (apply orb_false_elim in Htop as [Htop ?]). assumption. }
      rewrite skip_sep_semi, Eh. apply skip_sep_stop; assumption. }
    assert (Hlen : (length (T ++ rest) <= f)%nat).
    { clear - Hf. cbn [length] in Hf. lia. }
    pose proof (Hn f d true rest Hwn Hend Hlen) as Hmk. fold T in Hmk. rewrite kres_of_eq in Hmk.
    rewrite (parse_nodes_step f nested false _ _ T rest _ _ _ _ _ Hsk (ex_intro _ c (ex_intro _ tlc (conj Eh (conj Hko H3)))) Hmk
               (wf_not_board true n Hwn) Hend).
    subst rest. rewrite IH; [|exact Htl|exact Hwtl|].
    + cbn [map]. rewrite (norm_node_key false true n). rewrite (has_nl_inline n Hwn).
      cbn [negb andb orb Nat.eqb]. rewrite !andb_false_r. reflexivity.
    + pose proof (node_text_nonempty d true n Hwn) as L1. fold T in L1. rewrite app_length in Hlen. lia.
Qed.

Lemma tail_close_ml d rest f : (length (cNL :: indent d ++ cRC :: rest) < f)%nat ->
  parse_nodes is_num f true false (cNL :: indent d ++ cRC :: rest) = POk ([], true, rest).
Proof.
  intro H. destruct f as [|f]; [lia|]. cbn [parse_nodes]. rewrite skip_sep_nl, skip_sep_indent.
  rewrite skip_sep_stop by reflexivity. cbn iota beta. change (cRC =? cRC) with true. reflexivity.
Qed.

Lemma tail_close_inl rest f : (length (cRC :: rest) < f)%nat ->
  parse_nodes is_num f true false (cRC :: rest) = POk ([], false, rest).
Proof. intro H. destruct f as [|f]; [lia|]. reflexivity. Qed.

Lemma tail_file f : (length [cNL] < f)%nat -> parse_nodes is_num f false false [cNL] = POk ([], true, []).
Proof. intro H. destruct f as [|f]; [simpl in H; lia|]. reflexivity. Qed.

(* the body of a nested map *)
Lemma parse_body d ol ns rest :
  ns <> [] -> Forall node_spec ns -> forallb (wf_node is_num ol) ns = true ->
  forall f, (length (body d ol ns ++ rest) < f)%nat ->
  parse_nodes is_num f true true (body d ol ns ++ rest) = POk (norm_nodes ol ns, negb ol, rest).
Proof.
  intros Hne Hspec Hwf f Hf. destruct ns as [|n tl]; [congruence|].
  pose proof (Forall_inv Hspec) as Hn. pose proof (Forall_inv_tail Hspec) as Htl. cbn [forallb] in Hwf. apply andb_prop in Hwf as [Hwn Hwtl].
  destruct f as [|f]; [lia|]. unfold body in *. destruct ol.
  - (* one line *)
    set (T := fmt_node d n). set (r1 := inl_rest (items d tl) ++ cRC :: rest).
    assert (Etext : (join_inline (items d (n :: tl)) ++ [cRC]) ++ rest = T ++ r1).
    { cbn [items map join_inline]. fold (items d tl). rewrite <- !app_assoc. reflexivity. }
    rewrite Etext in Hf |- *.
    assert (Hend : node_end r1 = true).
    { subst r1. destruct tl; reflexivity. }
    destruct (node_head d true n r1 Hwn) as [c [tlc [Eh [Hko H3]]]]. fold T in Eh.
    assert (Hsk : skip_sep (T ++ r1) 0 = (0%nat, T ++ r1)).
    { destruct Hko as [Hsp [Htop _]].
      assert (Hsemi : (c =? cSEMI) = false).
      { unfold is_top_delim in Htop. repeat (apply orb_false_elim in Htop as [Htop ?]). assumption. }
      rewrite Eh. apply skip_sep_stop; assumption. }
    assert (Hlen : (length (T ++ r1) <= f)%nat) by lia.
    pose proof (Hn f d true r1 Hwn Hend Hlen) as Hmk. fold T in Hmk. rewrite kres_of_eq in Hmk.
    rewrite (parse_nodes_step f true true _ _ T r1 _ _ _ _ _ Hsk (ex_intro _ c (ex_intro _ tlc (conj Eh (conj Hko H3)))) Hmk
               (wf_not_board true n Hwn) Hend).
    subst r1. rewrite (parse_rest_inl true (cRC :: rest) rest d (tail_close_inl rest) (ex_intro _ rest eq_refl) tl Htl Hwtl).
    + cbn [norm_nodes]. rewrite (norm_node_key true true n). rewrite (has_nl_inline n Hwn).
      cbn [negb andb orb Nat.eqb]. rewrite !andb_false_r. reflexivity.
    + pose proof (node_text_nonempty d true n Hwn) as L1. fold T in L1. rewrite app_length in Hlen. lia.
  - (* several lines *)
    set (T := fmt_node (S d) n). set (TAIL := cNL :: indent d ++ cRC :: rest).
    set (r1 := join_rest (S d) (items (S d) tl) ++ TAIL).
    assert (Etext : ((join_nested (S d) (items (S d) (n :: tl)) ++ cNL :: indent d) ++ [cRC]) ++ rest
                    = cNL :: indent (S d) ++ T ++ r1).
    { cbn [items map join_nested]. fold (items (S d) tl). subst r1 TAIL. cbn [app]. rewrite <- !app_assoc.
      cbn [app]. rewrite <- ?app_assoc. reflexivity. }
    rewrite Etext in Hf |- *.
    assert (Hend : node_end r1 = true).
    { subst r1. destruct tl as [|n2 tl2]; [reflexivity|].
      cbn [items map]. destruct (join_rest_head (S d) (gap_of n2, fmt_node (S d) n2) (map (fun n0 => (gap_of n0, fmt_node (S d) n0)) tl2) TAIL) as [t Et].
      rewrite Et. reflexivity. }
    destruct (node_head (S d) false n r1 Hwn) as [c [tlc [Eh [Hko H3]]]]. fold T in Eh.
    assert (Hsk : skip_sep (cNL :: indent (S d) ++ T ++ r1) 0 = (1%nat, T ++ r1)).
    { destruct Hko as [Hsp [Htop _]].
      assert (Hsemi : (c =? cSEMI) = false).
      { unfold is_top_delim in Htop. repeat (apply orb_false_elim in Htop as [Htop ?]). assumption. }
      rewrite skip_sep_nl, skip_sep_indent, Eh. apply skip_sep_stop; assumption. }
    assert (Hlen : (length (T ++ r1) <= f)%nat).
    { clear - Hf. cbn [length] in Hf. rewrite !app_length in Hf. rewrite app_length. lia. }
    pose proof (Hn f (S d) false r1 Hwn Hend Hlen) as Hmk. fold T in Hmk. rewrite kres_of_eq in Hmk.
    rewrite (parse_nodes_step f true true _ _ T r1 _ _ _ _ _ Hsk (ex_intro _ c (ex_intro _ tlc (conj Eh (conj Hko H3)))) Hmk
               (wf_not_board false n Hwn) Hend).
    subst r1. rewrite (parse_rest_ml true TAIL rest (S d) (tail_close_ml d rest) (ex_intro _ _ eq_refl) tl Htl Hwtl).
    + cbn [norm_nodes]. rewrite (norm_node_key true false n). cbn [negb andb orb]. rewrite !andb_false_r. reflexivity.
    + pose proof (node_text_nonempty (S d) false n Hwn) as L1. fold T in L1. rewrite app_length in Hlen. lia.
Qed.

(* ------------------------------------------------------------------ every declaration of F *)

Theorem node_spec_all : forall n, node_spec n.
Proof.
  induction n as [g path prim h ns IH] using node_ind2.
  intros f d inl rest Hwf Hend Hlen.
  apply (parse_mapkey_node (parse_nodes is_num f true true) d inl g path prim h ns rest Hwf Hend).
  intros ol Eh Hne. subst h.
  destruct (wf_node_parts _ _ _ _ _ _ Hwf) as [_ [_ [_ [_ [_ Hns]]]]].
  apply (parse_body d ol ns rest Hne IH Hns).
  (* the body is a strict suffix of the declaration's text *)
  rewrite fmt_node_eq in Hlen. destruct ns as [|n1 tl]; [congruence|].
  rewrite !app_length in Hlen. cbn [length] in Hlen. rewrite app_length.
  assert (length (sep_of prim) >= 1)%nat by (destruct prim; cbn; lia).
  lia.
Qed.

(* ------------------------------------------------------------------ files *)

Theorem parse_format_file a : wf_file is_num a = true -> parse_file is_num (format_file a) = POk (norm_file a).
Proof.
  destruct a as [ol ns]. cbn [wf_file]. intro H. apply andb_prop in H as [Hol Hwf].
  destruct ns as [|n tl]; [reflexivity|].
  assert (Hspec : Forall node_spec (n :: tl)) by (apply Forall_forall; intros; apply node_spec_all).
  pose proof (Forall_inv Hspec) as Hn. pose proof (Forall_inv_tail Hspec) as Htl. cbn [forallb] in Hwf. apply andb_prop in Hwf as [Hwn Hwtl].
  (* in both layouts the text is: first declaration, the others each on its own line, final newline *)
  assert (Etext : format_file (File ol (n :: tl)) = fmt_node 0 n ++ join_rest 0 (items 0 tl) ++ [cNL]
                  /\ norm_file (File ol (n :: tl)) = File false (norm_node true false n :: map (norm_node false false) tl)).
  { destruct ol.
    - cbn [negb orb] in Hol. destruct tl as [|n2 tl2]; [|discriminate Hol].
      split; [cbn [format_file map join_inline inl_rest items join_rest app]; rewrite app_nil_r; reflexivity|].
      cbn [norm_file norm_nodes map]. rewrite (norm_node_key true true n), (norm_node_key true false n).
      cbn [negb andb]. rewrite !andb_false_r. reflexivity.
    - split; [|reflexivity]. cbn [format_file map join_file]. fold (items 0 tl). rewrite <- app_assoc. reflexivity. }
  destruct Etext as [-> ->]. unfold parse_file.
  set (T := fmt_node 0 n). set (r1 := join_rest 0 (items 0 tl) ++ [cNL]).
  assert (Hend : node_end r1 = true).
  { subst r1. destruct tl as [|n2 tl2]; [reflexivity|].
    cbn [items map]. destruct (join_rest_head 0 (gap_of n2, fmt_node 0 n2) (map (fun n0 => (gap_of n0, fmt_node 0 n0)) tl2) [cNL]) as [t Et].
    rewrite Et. reflexivity. }
  destruct (node_head 0 false n r1 Hwn) as [c [tlc [Eh [Hko H3]]]]. fold T in Eh.
  assert (Hsk : skip_sep (T ++ r1) 0 = (0%nat, T ++ r1)).
  { destruct Hko as [Hsp [Htop _]].
    assert (Hsemi : (c =? cSEMI) = false).
    { unfold is_top_delim in Htop. repeat (apply orb_false_elim in Htop as [Htop ?]). assumption. }
    rewrite Eh. apply skip_sep_stop; assumption. }
  pose proof (Hn (length (T ++ r1)) 0%nat false r1 Hwn Hend (le_n _)) as Hmk. fold T in Hmk. rewrite kres_of_eq in Hmk.
  rewrite (parse_nodes_step _ false true _ _ T r1 _ _ _ _ _ Hsk (ex_intro _ c (ex_intro _ tlc (conj Eh (conj Hko H3)))) Hmk
             (wf_not_board false n Hwn) Hend).
  subst r1. rewrite (parse_rest_ml false [cNL] [] 0 tail_file (ex_intro _ [] eq_refl) tl Htl Hwtl).
  - rewrite (norm_node_key true false n). cbn [negb andb orb]. rewrite !andb_false_r. rewrite orb_true_r. reflexivity.
  - rewrite (app_length T).
    pose proof (node_text_nonempty 0 false n Hwn) as L1. fold T in L1. lia.
Qed.

End RT.
