(* Executable checker for C03 cases. *)
From Coq Require Import List NArith Bool.
Import ListNotations.
Require Import V.Lib.RunCases V.C05.Model.
Require Export V.C03.Format.
Open Scope N_scope.

Inductive case :=
| CSearch (nerr : N) (f1 f2 : str)
    (* search on the full language: f1 = Format(Parse(text)) for an error-free input, nerr = number of errors
       of Parse(f1), f2 = Format(Parse(f1)); both texts entirely, or the same window of both around the
       first difference when they are long *)
| CFrag (nums : list str) (text : str) (must inputok : bool) (ast : option file) (vals : list str)
        (f1 : str) (nerr : N) (f2 : str).
    (* fragment F: text through d2parser.Parse (inputok: no errors; ast: its AST when it has the shape of the
       fragment; vals: the scalar strings of all string nodes in pre-order), f1/nerr/f2 as above;
       nums: the strings big.Rat.SetString accepts (the is_num of this case);
       must: the generator promises that the text is inside the fragment (the model may not answer PUns) *)

Definition snode_eqb (a b : snode) : bool :=
  match a, b with
  | SUnq x, SUnq y => str_eqb x y | SDq x, SDq y => str_eqb x y | SSq x, SSq y => str_eqb x y
  | _, _ => false
  end.
Definition scalar_eqb (a b : scalar) : bool :=
  match a, b with
  | CNull, CNull => true
  | CBool x, CBool y => Bool.eqb x y
  | CSusp x, CSusp y => Bool.eqb x y
  | CNum x, CNum y => str_eqb x y
  | CStr x, CStr y => snode_eqb x y
  | _, _ => false
  end.
Definition vhead_eqb (a b : vhead) : bool :=
  match a, b with
  | HNone, HNone => true
  | HScal x, HScal y => scalar_eqb x y
  | HMap x, HMap y => Bool.eqb x y
  | _, _ => false
  end.
Fixpoint node_eqb (a b : node) : bool :=
  match a, b with
  | Key g1 p1 pr1 h1 ns1, Key g2 p2 pr2 h2 ns2 =>
      Bool.eqb g1 g2 && list_eqb snode_eqb p1 p2 && opt_eqb scalar_eqb pr1 pr2 && vhead_eqb h1 h2
      && (fix go (l1 l2 : list node) : bool :=
            match l1, l2 with
            | [], [] => true
            | x :: xs, y :: ys => node_eqb x y && go xs ys
            | _, _ => false
            end) ns1 ns2
  end.
Definition file_eqb (a b : file) : bool :=
  match a, b with File o1 n1, File o2 n2 => Bool.eqb o1 o2 && list_eqb node_eqb n1 n2 end.

(* scalar strings of all string nodes, pre-order (key segments, primary, value, children) *)
Definition scalar_vals (c : scalar) : list str := match c with CStr s => [sval s] | _ => [] end.
Fixpoint node_vals (n : node) : list str :=
  match n with
  | Key _ path prim h ns =>
      map sval path ++ (match prim with Some c => scalar_vals c | None => [] end)
      ++ (match h with HScal c => scalar_vals c | _ => [] end)
      ++ flat_map node_vals ns
  end.
Definition file_vals (a : file) : list str := match a with File _ ns => flat_map node_vals ns end.

Definition check_case (c : case) : list N :=
  match c with
  | CSearch nerr f1 f2 => flag (nerr =? 0) 10 ++ flag (str_eqb f1 f2) 11
  | CFrag nums text must inputok ast vals f1 nerr f2 =>
      let is_num := fun s => existsb (str_eqb s) nums in
      (* model parser against d2parser.Parse *)
      flag (match parse_file is_num text with
            | PUns => negb must
            | PErr => negb inputok
            | POk a => inputok && match ast with Some b => file_eqb a b | None => false end
            end) 1
      (* model printer and derived string values against d2format.Format / ScalarString *)
      ++ flag (match ast with
               | Some a => str_eqb (format_file a) f1 && list_eqb str_eqb (file_vals a) vals
               | None => true end) 1
      (* the property on the implementation's own output *)
      ++ (if inputok then flag (nerr =? 0) 10 ++ flag (str_eqb f1 f2) 11 else [])
  end.
