(* C03 — formatting is idempotent.  Model (definitions only).

   Fragment F of the D2 language: a file is a list of declarations `key.path: primary {children}` /
   `key.path: value` / `key.path`, where every key segment and every string value is an unquoted, double
   quoted or single quoted string, the other scalars are null / booleans / suspension markers / numbers,
   and a value may be a nested map of such declarations (any nesting depth, any number of declarations),
   written on one line (`{a; b}`) or on several lines, with or without blank lines between declarations.
   OUTSIDE F (the model parser answers PUns): comments, block comments, block strings, arrays, edges and
   edge groups, substitutions, imports, spreads, globs filters (&, !&), line continuations.

   AST.  The printer d2format reads, of a string node produced by the parser, only its *raw* text
   (InterpolationBox.StringRaw; single quoted strings: the value), and of the source ranges only
     - Map.Range.OneLine()                                  -> field [oneline]
     - n.Range.Start.Line - prev.Range.End.Line > 1         -> field [gap] (false for the first node)
   so the model AST carries exactly these.  The scalar value of a string (what the compiler sees) is the
   derived function [sval].

   Printer: d2format/format.go printer.{node,_map,mapKey,key,path,interpolationBoxes}.
   Parser:  d2parser/parse.go parseMap / parseMapNode / parseMapKey / parseMapKeyValue / parseValue /
            parseKey / parseString / parseUnquotedString / parseDoubleQuotedString / parseSingleQuotedString
            on rune lists, with the newline counting that determines ranges' lines.
   Strings are lists of runes; the tables and the basic string functions are those of V.C05.Model. *)
From Coq Require Import List NArith Bool Arith.
Import ListNotations.
Require Import V.Gen.C05Tables V.C05.Model.
Open Scope N_scope.

(* ------------------------------------------------------------------ AST *)

Inductive snode := SUnq (raw : str) | SDq (raw : str) | SSq (v : str).
Inductive scalar := CNull | CBool (b : bool) | CSusp (b : bool) | CNum (raw : str) | CStr (s : snode).
Inductive vhead := HNone | HScal (c : scalar) | HMap (oneline : bool).
(* Key gap path primary value-head children: children are used only under HMap *)
Inductive node := Key (gap : bool) (path : list snode) (prim : option scalar) (h : vhead) (ns : list node).
Inductive file := File (oneline : bool) (ns : list node).

(* value of a raw text: `\c` stands for decodeEscape c *)
Fixpoint unesc (r : str) : str :=
  match r with
  | [] => []
  | c :: tl =>
      if c =? cBSL then match tl with [] => [] | c2 :: tl2 => decode_escape c2 :: unesc tl2 end
      else c :: unesc tl
  end.

Definition sval (s : snode) : str :=
  match s with SUnq r => trim_right (unesc r) | SDq r => unesc r | SSq v => v end.

Definition utf8_len1 (c : N) : N := if c <? 128 then 1 else if c <? 2048 then 2 else if c <? 65536 then 3 else 4.
Definition utf8_len (s : str) : N := fold_right (fun c n => utf8_len1 c + n) 0 s.

(* ------------------------------------------------------------------ printer *)

Definition fmt_snode (inKey : bool) (s : snode) : str :=
  match s with
  | SUnq r => lower_kw inKey r
  | SDq r => cDQ :: r ++ [cDQ]
  | SSq v => cSQ :: escape_sq v ++ [cSQ]
  end.

Fixpoint fmt_path (p : list snode) : str :=
  match p with
  | [] => []
  | [s] => fmt_snode true s
  | s :: tl => fmt_snode true s ++ cDOT :: fmt_path tl
  end.

Definition fmt_scalar (c : scalar) : str :=
  match c with
  | CNull => w_null
  | CBool b => if b then w_true else w_false
  | CSusp b => if b then w_suspend else w_unsuspend
  | CNum r => r
  | CStr s => fmt_snode false s
  end.

Definition indent (d : nat) : str := repeat cSP (2 * d).

Definition gap_of (n : node) : bool := match n with Key g _ _ _ _ => g end.

(* nodes after the first one of a multi-line map: optional blank line, newline, indentation *)
Fixpoint join_rest (d : nat) (items : list (bool * str)) : str :=
  match items with
  | [] => []
  | (g, t) :: tl => (if g then [cNL] else []) ++ cNL :: indent d ++ t ++ join_rest d tl
  end.
Definition join_nested (d : nat) (items : list (bool * str)) : str :=
  match items with [] => [] | (_, t) :: tl => cNL :: indent d ++ t ++ join_rest d tl end.
Definition join_file (items : list (bool * str)) : str :=
  match items with [] => [] | (_, t) :: tl => t ++ join_rest 0 tl end.
Fixpoint inl_rest (items : list (bool * str)) : str :=
  match items with [] => [] | (_, t) :: tl => cSEMI :: cSP :: t ++ inl_rest tl end.
Definition join_inline (items : list (bool * str)) : str :=
  match items with [] => [] | (_, t) :: tl => t ++ inl_rest tl end.

Definition sep_of (prim : option scalar) : str := match prim with None => [cCOLON; cSP] | Some _ => [cSP] end.

Fixpoint fmt_node (d : nat) (n : node) : str :=
  match n with
  | Key _ path prim h ns =>
      fmt_path path
      ++ (match prim with Some c => cCOLON :: cSP :: fmt_scalar c | None => [] end)
      ++ match h with
         | HNone => []
         | HScal c => sep_of prim ++ fmt_scalar c
         | HMap ol =>
             match ns with
             | [] => []
             | _ => sep_of prim ++ cLC ::
                    (if ol then join_inline (map (fun n => (gap_of n, fmt_node d n)) ns)
                     else join_nested (S d) (map (fun n => (gap_of n, fmt_node (S d) n)) ns) ++ cNL :: indent d)
                    ++ [cRC]
             end
         end
  end.

Definition format_file (a : file) : str :=
  match a with
  | File ol ns =>
      match ns with
      | [] => []
      | _ => (if ol then join_inline (map (fun n => (gap_of n, fmt_node 0 n)) ns)
              else join_file (map (fun n => (gap_of n, fmt_node 0 n)) ns)) ++ [cNL]
      end
  end.

(* ------------------------------------------------------------------ scanners (value, raw, rest) *)

Fixpoint scan_unq_r (inKey : bool) (l : str) (av ar : str) : pres (str * str * str) :=
  let ordinary (r : N) (tl : str) (av ar : str) (k : str -> str -> str -> pres (str * str * str)) :=
      if negb inKey && (r =? cDOLLAR) then PUns
      else if r =? cBSL then
        match tl with
        | [] => PErr
        | r2 :: tl2 => if r2 =? cNL then PUns else k tl2 (av ++ [decode_escape r2]) (ar ++ [cBSL; r2])
        end
      else k tl (av ++ [r]) (ar ++ [r]) in
  match l with
  | [] => POk (av, ar, [])
  | r :: tl =>
      if is_top_delim r then POk (av, ar, l)
      else if inKey && is_key_delim r then POk (av, ar, l)
      else if inKey && (r =? cDASH) then
        match tl with
        | [] => POk (av, ar, l)
        | r2 :: tl2 =>
            if is_top_delim r2 then POk (av ++ [r], ar ++ [r], tl)
            else if (r2 =? cDASH) || (r2 =? cGT) || (r2 =? cSTAR) then POk (av, ar, l)
            else ordinary r2 tl2 (av ++ [r]) (ar ++ [r]) (fun t a b => scan_unq_r inKey t a b)
        end
      else ordinary r tl av ar (fun t a b => scan_unq_r inKey t a b)
  end.

(* after the opening quote; a line continuation inside the string is outside F *)
Fixpoint scan_dq_r (inKey : bool) (l : str) (av ar : str) : pres (str * str * str) :=
  match l with
  | [] => PErr
  | r :: tl =>
      if r =? cNL then PErr
      else if negb inKey && (r =? cDOLLAR) then PUns
      else if r =? cDQ then POk (av, ar, tl)
      else if r =? cBSL then
        match tl with
        | [] => PErr
        | r2 :: tl2 => if r2 =? cNL then PUns else scan_dq_r inKey tl2 (av ++ [decode_escape r2]) (ar ++ [cBSL; r2])
        end
      else scan_dq_r inKey tl (av ++ [r]) (ar ++ [r])
  end.

Fixpoint scan_sq_r (l : str) (acc : str) : pres (str * str) :=
  match l with
  | [] => PErr
  | r :: tl =>
      if r =? cNL then PErr
      else if r =? cSQ then
        match tl with
        | r2 :: tl2 => if r2 =? cSQ then scan_sq_r tl2 (acc ++ [cSQ]) else POk (acc, tl)
        | [] => POk (acc, tl)
        end
      else if r =? cBSL then
        match tl with
        | [] => scan_sq_r tl acc
        | r2 :: _ => if r2 =? cNL then PUns else scan_sq_r tl (acc ++ [r])
        end
      else scan_sq_r tl (acc ++ [r])
  end.

Definition starts_with (p l : str) : bool := str_eqb p (firstn (length p) l).

(* parseString on input whose first rune is not a space *)
Definition parse_string_r (inKey : bool) (l : str) : pres (option snode * str) :=
  match l with
  | [] => POk (None, [])
  | r :: tl =>
      if r =? cDQ then
        match scan_dq_r inKey tl [] [] with POk (_, raw, rest) => POk (Some (SDq raw), rest) | PErr => PErr | PUns => PUns end
      else if r =? cSQ then
        match scan_sq_r tl [] with POk (v, rest) => POk (Some (SSq v), rest) | PErr => PErr | PUns => PUns end
      else if r =? cPIPE then PUns
      else if starts_with [cDOT; cDOT; cDOT; cAT] l then PErr
      else match scan_unq_r inKey l [] [] with
           | POk (v, raw, rest) =>
               match trim_right v with
               | [] => POk (None, rest)
               | tv => (* the parser trims raw and value separately; when that splits an escape the raw text no
                          longer denotes the value (recorded finding C03-escaped-trailing-space): outside F *)
                       if str_eqb (trim_right (unesc (trim_right raw))) tv then POk (Some (SUnq (trim_right raw)), rest)
                       else PUns
               end
           | PErr => PErr | PUns => PUns
           end
  end.

(* parseKey: the path and the unread rest (peeked runes are rewound) *)
Fixpoint parse_path (fuel : nat) (l : str) (acc : list snode) : pres (list snode * str) :=
  match fuel with
  | O => PUns
  | S f =>
      let '(nl, l1) := skip_space l false in
      match l1 with
      | [] => POk (acc, l)
      | r :: _ =>
          if nl || (r =? cLP) then POk (acc, l)
          else if r =? cDOT then PErr
          else
            match parse_string_r true l1 with
            | PErr => PErr | PUns => PUns
            | POk (None, rest) => POk (acc, rest)
            | POk (Some s, rest) =>
                if match s with SUnq _ => match sval s with c :: _ => c =? cAT | [] => false end | _ => false end then PErr
                else if 518 <? utf8_len (sval s) then PErr
                else
                  let acc' := acc ++ [s] in
                  let '(nl2, l2) := skip_space rest false in
                  match l2 with
                  | [] => POk (acc', rest)
                  | r2 :: tl2 => if nl2 || negb (r2 =? cDOT) then POk (acc', rest) else parse_path f tl2 acc'
                  end
            end
      end
  end.

(* ------------------------------------------------------------------ normal form of strings; board keywords *)

Definition norm_snode (inKey : bool) (s : snode) : snode :=
  match s with SUnq r => SUnq (lower_kw inKey r) | _ => s end.

Definition w_layers : str := [108;97;121;101;114;115].
Definition w_scenarios : str := [115;99;101;110;97;114;105;111;115].
Definition w_steps : str := [115;116;101;112;115].
Definition is_board_word (v : str) : bool := str_eqb v w_layers || str_eqb v w_scenarios || str_eqb v w_steps.
(* MapNodeBox.IsBoardNode, evaluated on the key as printed *)
Definition is_board_path (p : list snode) : bool :=
  match p with [s] => is_board_word (sval (norm_snode true s)) | _ => false end.

(* classification of an unquoted value (parseValue) *)
Definition kw_class (v : str) : option scalar :=
  if equal_fold v w_null then Some CNull
  else if equal_fold v w_suspend then Some (CSusp true)
  else if equal_fold v w_unsuspend then Some (CSusp false)
  else if equal_fold v w_true then Some (CBool true)
  else if equal_fold v w_false then Some (CBool false)
  else None.

Definition classify (is_num : str -> bool) (s : snode) : scalar :=
  match s with
  | SUnq _ => match kw_class (sval s) with
              | Some c => c
              | None => if is_num (sval s) then CNum (sval s) else CStr s
              end
  | _ => CStr s
  end.

(* result of parsing a map body: nodes, "a newline was consumed", rest *)
Definition nres := (list node * bool * str)%type.
Definition kres := (list snode * option scalar * vhead * list node * bool * str)%type.

Section Parser.
Variable is_num : str -> bool.   (* big.Rat.SetString acceptance; the theorems hold for every is_num *)

(* parseValue (+ the primary-value test of parseMapKeyValue); [rec] parses a map body after '{' *)
Definition parse_value (rec : str -> pres nres) (l : str) : pres (option scalar * vhead * list node * bool * str) :=
  let '(nl, l1) := skip_space l false in
  match l1 with
  | [] => PErr
  | r :: tl =>
      if nl then PErr
      else if (r =? cLB) || (r =? cAT) then PUns
      else if r =? cLC then
        match rec tl with
        | POk (ns, snl, rest) => POk (None, HMap (negb snl), ns, snl, rest)
        | PErr => PErr | PUns => PUns
        end
      else
        match parse_string_r false l1 with
        | PErr => PErr | PUns => PUns
        | POk (None, _) => PErr
        | POk (Some s, rest) =>
            let c := classify is_num s in
            let '(nl2, l2) := skip_space rest false in
            match l2 with
            | r2 :: tl2 =>
                if negb nl2 && (r2 =? cLC) then
                  match rec tl2 with
                  | POk (ns, snl, rest') => POk (Some c, HMap (negb snl), ns, snl, rest')
                  | PErr => PErr | PUns => PUns
                  end
                else POk (None, HScal c, [], false, rest)
            | [] => POk (None, HScal c, [], false, rest)
            end
        end
  end.

(* parseMapKey + parseMapKeyValue on input whose first rune is not a space *)
Definition parse_mapkey (rec : str -> pres nres) (l : str) : pres kres :=
  match l with
  | [] => PErr
  | r :: tl =>
      if (r =? cAMP) || (r =? cLP) then PUns
      else if (r =? 33) && match tl with r2 :: _ => r2 =? cAMP | [] => false end then PUns
      else
        match parse_path (S (length l)) l [] with
        | PErr => PErr | PUns => PUns
        | POk (path, rest) =>
            let done := match path with [] => PErr | _ => POk (path, None, HNone, [], false, rest) end in
            let '(nl, l1) := skip_space rest false in
            match l1 with
            | [] => done
            | r1 :: tl1 =>
                if nl then done
                else if (r1 =? cLP) || (r1 =? cLT) || (r1 =? cGT) || (r1 =? cDASH) then PUns
                else if (r1 =? cLC) || (r1 =? cCOLON) then
                  match path with
                  | [] => PErr
                  | _ => match parse_value rec (if r1 =? cLC then l1 else tl1) with
                         | POk (prim, h, ns, snl, rest') => POk (path, prim, h, ns, snl, rest')
                         | PErr => PErr | PUns => PUns
                         end
                  end
                else done
            end
        end
  end.

(* the separators between declarations: white space and ';', counting newlines *)
Fixpoint skip_sep (l : str) (k : nat) : nat * str :=
  match l with
  | [] => (k, [])
  | r :: tl => if is_space r then skip_sep tl (if r =? cNL then S k else k)
               else if r =? cSEMI then skip_sep tl k else (k, l)
  end.

(* what may follow a declaration on its line *)
Definition node_end_ok (rest : str) : bool :=
  let '(nl, l2) := skip_space rest false in
  match l2 with [] => true | r2 :: _ => nl || (r2 =? cSEMI) || (r2 =? cRC) || (r2 =? cHASH) end.

Fixpoint parse_nodes (fuel : nat) (nested first : bool) (l : str) : pres nres :=
  match fuel with
  | O => PUns
  | S f =>
      let '(k, l1) := skip_sep l 0 in
      let snl := negb (Nat.eqb k 0) in
      match l1 with
      | [] => if nested then PErr else POk ([], snl, [])
      | r :: tl =>
          if r =? cRC then (if nested then POk ([], snl, tl) else PErr)
          else if (r =? cHASH) || (r =? cDOT) || starts_with [cDQ; cDQ; cDQ] l1 then PUns
          else
            match parse_mapkey (parse_nodes f true true) l1 with
            | PErr => PErr | PUns => PUns
            | POk (path, prim, h, ns, snl1, rest) =>
                if is_board_path path then PUns   (* layers / scenarios / steps blocks are moved by the printer: outside F *)
                else if negb (node_end_ok rest) then PErr
                else
                  match parse_nodes f nested false rest with
                  | POk (more, snl2, rest') =>
                      POk (Key (negb first && (2 <=? k)%nat) path prim h ns :: more, snl || snl1 || snl2, rest')
                  | PErr => PErr | PUns => PUns
                  end
            end
      end
  end.

Definition parse_file (text : str) : pres file :=
  match parse_nodes (S (length text)) false true text with
  | POk (ns, snl, _) => POk (File (negb snl) ns)
  | PErr => PErr | PUns => PUns
  end.

End Parser.

(* ------------------------------------------------------------------ normal form *)

(* [first]: first node of its map; [inl]: its map is written on one line *)
Fixpoint norm_node (first inl : bool) (n : node) : node :=
  match n with
  | Key g path prim h ns =>
      let g' := g && negb first && negb inl in
      let path' := map (norm_snode true) path in
      match h with
      | HMap ol =>
          match ns with
          | [] => match prim with Some c => Key g' path' None (HScal c) [] | None => Key g' path' None HNone [] end
          | n1 :: tl => Key g' path' prim (HMap ol) (norm_node true ol n1 :: map (norm_node false ol) tl)
          end
      | _ => Key g' path' prim h ns
      end
  end.

Definition norm_nodes (inl : bool) (ns : list node) : list node :=
  match ns with [] => [] | n1 :: tl => norm_node true inl n1 :: map (norm_node false inl) tl end.

Definition norm_file (a : file) : file :=
  match a with File ol ns => File (match ns with [] => true | _ => false end) (norm_nodes ol ns) end.

(* ------------------------------------------------------------------ the fragment F (well-formedness) *)

Definition plain_unq (inKey : bool) (c : N) : bool :=
  negb (is_top_delim c) && negb (c =? cBSL)
  && (if inKey then negb (is_key_delim c) && negb (c =? cDASH) else negb (c =? cDOLLAR)).

(* the raw text is a sequence of tokens: plain rune, `\c` (c not a newline), and in keys `-` followed by a
   plain rune other than `*` *)
Fixpoint toks_ok (inKey : bool) (r : str) : bool :=
  match r with
  | [] => true
  | c :: tl =>
      if c =? cBSL then match tl with [] => false | c2 :: tl2 => negb (c2 =? cNL) && toks_ok inKey tl2 end
      else if inKey && (c =? cDASH) then
        match tl with c2 :: _ => plain_unq true c2 && negb (c2 =? cSTAR) && toks_ok inKey tl | [] => false end
      else plain_unq inKey c && toks_ok inKey tl
  end.

Definition first_ok (inKey : bool) (r : str) : bool :=
  match r with
  | [] => false
  | c :: _ => negb (is_space c) && negb (c =? cDQ) && negb (c =? cSQ) && negb (c =? cPIPE)
              && (if inKey then negb (c =? cLP) && negb (c =? 33)
                  else negb (c =? cAT) && negb (starts_with [cDOT; cDOT; cDOT; cAT] r))
  end.

Definition unq_ok (inKey : bool) (r : str) : bool :=
  toks_ok inKey r && first_ok inKey r && negb (is_space (last r 0))
  && match trim_right (unesc r) with [] => false | _ => true end.

Fixpoint dq_ok (inKey : bool) (r : str) : bool :=
  match r with
  | [] => true
  | c :: tl =>
      if c =? cBSL then match tl with [] => false | c2 :: tl2 => negb (c2 =? cNL) && dq_ok inKey tl2 end
      else negb (c =? cDQ) && negb (c =? cNL) && (inKey || negb (c =? cDOLLAR)) && dq_ok inKey tl
  end.

Definition str_ok (inKey : bool) (s : snode) : bool :=
  match s with SUnq r => unq_ok inKey r | SDq r => dq_ok inKey r | SSq v => negb (mem cNL v) end.

(* a key segment, as it is after the printer's keyword lower-casing *)
Definition wf_key (s : snode) : bool :=
  let s' := norm_snode true s in
  str_ok true s'
  && negb (match s' with SUnq _ => match sval s' with c :: _ => c =? cAT | [] => false end | _ => false end)
  && (utf8_len (sval s') <=? 518)
  && match s' with SDq [] => false | _ => true end.   (* the empty key "" is left out of F *)

Section WF.
Variable is_num : str -> bool.

Definition wf_scalar (c : scalar) : bool :=
  match c with
  | CNull | CBool _ | CSusp _ => true
  | CNum r => unq_ok false r && negb (mem cBSL r)
              && match kw_class (sval (SUnq r)) with None => is_num (sval (SUnq r)) | Some _ => false end
  | CStr (SUnq r) => unq_ok false r
                     && match kw_class (sval (SUnq r)) with None => negb (is_num (sval (SUnq r))) | Some _ => false end
  | CStr s => str_ok false s
  end.

Fixpoint wf_node (inl : bool) (n : node) : bool :=
  match n with
  | Key _ path prim h ns =>
      match path with [] => false | _ => true end
      && forallb wf_key path && negb (is_board_path path)
      && match h with
         | HNone => match prim with None => true | _ => false end && match ns with [] => true | _ => false end
         | HScal c => match prim with None => true | _ => false end && match ns with [] => true | _ => false end && wf_scalar c
         | HMap ol => (negb inl || ol) && match prim with None => true | Some c => wf_scalar c end
                      && forallb (wf_node ol) ns
         end
  end.

Definition wf_file (a : file) : bool :=
  match a with File ol ns => (negb ol || (length ns <=? 1)%nat) && forallb (wf_node false) ns end.

End WF.
