(* C03 — key paths and scalars: parse_path / classify read back what the printer writes. *)
From Coq Require Import List NArith Bool Arith Lia.
Import ListNotations.
Require Import V.Gen.C05Tables V.C05.Model V.C05.Proofs V.C03.Format V.C03.Proofs.
Open Scope N_scope.

(* ------------------------------------------------------------------ the reserved keyword table *)

(* Facts about the regenerated table d2ast.ReservedKeywords that the proofs use: every keyword is its own
   lower case, is a well-formed unquoted key text without escapes, and does not start with '@'. *)
Definition kw_table_ok : bool :=
  forallb (fun w => str_eqb (lower_str w) w && unq_ok true w && str_eqb (unesc w) w
                    && negb (match w with c :: _ => c =? cAT | [] => false end)) reserved_keywords.
Lemma kw_table : kw_table_ok = true.  Proof. vm_compute. reflexivity. Qed.

Lemma reserved_in w : is_reserved w = true -> In w reserved_keywords.
Proof.
  unfold is_reserved. intro H. apply existsb_exists in H as [x [Hin Heq]].
  apply str_eqb_eq in Heq. subst x. exact Hin.
Qed.

Lemma reserved_facts w : is_reserved w = true ->
  lower_str w = w /\ unq_ok true w = true /\ unesc w = w.
Proof.
  intro H. apply reserved_in in H.
  pose proof (proj1 (forallb_forall _ _) kw_table w H) as F. cbv beta in F.
  apply andb4 in F as [F1 [F2 [F3 _]]].
  apply str_eqb_eq in F1. apply str_eqb_eq in F3. auto.
Qed.

(* the case folding of reserved keywords, as an explicit statement about the table: the printer replaces
   a key text by its lower case exactly when that lower case is in the table, and doing so twice changes
   nothing *)
Lemma lower_kw_idem r : lower_kw true (lower_kw true r) = lower_kw true r.
Proof.
  unfold lower_kw. cbn [andb]. destruct (is_reserved (lower_str r)) eqn:E; [|rewrite E; reflexivity].
  destruct (reserved_facts _ E) as [L _]. rewrite L, E. reflexivity.
Qed.

Lemma lower_kw_value r : lower_kw false r = r.  Proof. reflexivity. Qed.

Lemma norm_snode_idem s : norm_snode true (norm_snode true s) = norm_snode true s.
Proof. destruct s; cbn [norm_snode]; [rewrite lower_kw_idem|..]; reflexivity. Qed.

Lemma fmt_snode_key s : fmt_snode true s = fmt_raw (norm_snode true s).
Proof. destruct s; reflexivity. Qed.
Lemma fmt_snode_val s : fmt_snode false s = fmt_raw s.
Proof. destruct s; reflexivity. Qed.

(* ------------------------------------------------------------------ white space *)

Lemma skip_space_true l : fst (skip_space l true) = true.
Proof. induction l as [|c tl IH]; [reflexivity|]. cbn [skip_space]. destruct (is_space c); [exact IH|reflexivity]. Qed.

Lemma skip_space_stop c tl b : is_space c = false -> skip_space (c :: tl) b = (b, c :: tl).
Proof. intro H. cbn [skip_space]. rewrite H. reflexivity. Qed.

Lemma skip_space_sp l b : skip_space (cSP :: l) b = skip_space l b.
Proof. cbn [skip_space]. change (is_space cSP) with true. change (cSP =? cNL) with false. rewrite orb_false_r. reflexivity. Qed.

Lemma skip_space_indent d l b : skip_space (indent d ++ l) b = skip_space l b.
Proof.
  unfold indent. induction (2 * d)%nat as [|k IH]; [reflexivity|].
  cbn [repeat app]. rewrite skip_space_sp. exact IH.
Qed.

(* ------------------------------------------------------------------ head of a printed key segment *)

Lemma toks_first_top c tl : toks_ok true (c :: tl) = true -> is_top_delim c = false.
Proof.
  cbn [toks_ok]. destruct (c =? cBSL) eqn:EB.
  - apply N.eqb_eq in EB. subst c. reflexivity.
  - destruct (c =? cDASH) eqn:ED.
    + apply N.eqb_eq in ED. subst c. reflexivity.
    + cbn [andb]. intro H. apply andb_prop in H as [H _]. apply plain_unq_key in H. tauto.
Qed.

(* what the parser tests on the first rune of a declaration / key segment *)
Definition key_head_ok (c : N) : Prop :=
  is_space c = false /\ is_top_delim c = false /\ is_key_delim c = false /\ (c =? cLP) = false /\ (c =? 33) = false.

Lemma key_head s rest : str_ok true s = true -> match s with SDq [] => False | _ => True end ->
  exists c tl, fmt_raw s ++ rest = c :: tl /\ key_head_ok c /\ starts_with [cDQ; cDQ; cDQ] (c :: tl) = false.
Proof.
  intros Hok Hne. destruct s as [r|r|v]; cbn [fmt_raw str_ok] in *.
  - destruct (unq_ok_parts true r Hok) as [Ht [Hf _]].
    destruct r as [|c tl]; [discriminate Hf|].
    destruct (first_ok_head true (c :: tl) Hf) as [c' [tl' [E [Hsp [Hdq [_ [_ [Hlp Hbang]]]]]]]].
    injection E as <- <-.
    exists c, (tl ++ rest). split; [reflexivity|]. split.
    + repeat split; try assumption; [apply (toks_first_top c tl Ht)|apply (toks_first_key c tl Ht)].
    + unfold starts_with. cbn [length firstn str_eqb]. rewrite (N.eqb_sym cDQ c), Hdq. reflexivity.
  - destruct r as [|c tl]; [contradiction|].
    exists cDQ, ((c :: tl) ++ [cDQ] ++ rest). split; [cbn [app]; rewrite <- app_assoc; reflexivity|]. split.
    + repeat split; reflexivity.
    + unfold starts_with. cbn [length firstn app str_eqb]. cbn [dq_ok] in Hok.
      destruct (c =? cBSL) eqn:EB.
      * apply N.eqb_eq in EB. subst c. reflexivity.
      * apply andb4 in Hok as [H1 _]. apply negb_t in H1. rewrite (N.eqb_sym cDQ c), H1. rewrite andb_false_r. reflexivity.
  - exists cSQ, (escape_sq v ++ [cSQ] ++ rest). split; [cbn [app]; rewrite <- app_assoc; reflexivity|]. split.
    + repeat split; reflexivity.
    + reflexivity.
Qed.

(* ------------------------------------------------------------------ parse_path *)

(* what follows a printed key path *)
Definition path_end (rest : str) : bool :=
  match rest with [] => true | c :: _ => (c =? cCOLON) || (c =? cNL) || (c =? cSEMI) || (c =? cRC) end.

Lemma path_end_stop rest : path_end rest = true -> stop_ok true rest = true.
Proof.
  destruct rest as [|c tl]; [reflexivity|]. cbn [path_end stop_ok]. intro H.
  repeat (apply orb_prop in H as [H|H]); apply N.eqb_eq in H; subst c; reflexivity.
Qed.

Lemma path_end_skip rest : path_end rest = true ->
  match snd (skip_space rest false) with
  | [] => True
  | r2 :: _ => (fst (skip_space rest false) || negb (r2 =? cDOT)) = true
  end.
Proof.
  destruct rest as [|c tl]; [exact (fun _ => I)|]. cbn [path_end]. intro H.
  repeat (apply orb_prop in H as [H|H]); apply N.eqb_eq in H; subst c;
    try (rewrite skip_space_stop by reflexivity; reflexivity).
  cbn [skip_space]. change (is_space cNL) with true. cbn iota. change (false || (cNL =? cNL)) with true.
  pose proof (skip_space_true tl) as T. destruct (skip_space tl true) as [b l2]. cbn [fst snd] in *. subst b.
  destruct l2; [exact I|reflexivity].
Qed.

Lemma wf_key_parts s : wf_key s = true ->
  str_ok true (norm_snode true s) = true
  /\ match norm_snode true s with SUnq _ => match sval (norm_snode true s) with c :: _ => c =? cAT | [] => false end | _ => false end = false
  /\ (518 <? utf8_len (sval (norm_snode true s))) = false.
Proof.
  unfold wf_key. intro H. apply andb4 in H as [H1 [H2 [H3 _]]].
  repeat split; [exact H1|apply negb_t; exact H2|]. apply N.ltb_ge. apply N.leb_le. exact H3.
Qed.

Lemma wf_key_dq s : wf_key s = true -> match norm_snode true s with SDq [] => False | _ => True end.
Proof.
  unfold wf_key. intro H. apply andb4 in H as [_ [_ [_ H4]]].
  destruct (norm_snode true s) as [r|[|c r]|v]; try exact I. discriminate H4.
Qed.

Lemma wf_path_dq path : forallb wf_key path = true ->
  forall s, In s path -> match norm_snode true s with SDq [] => False | _ => True end.
Proof. intros H s Hin. apply wf_key_dq. exact (proj1 (forallb_forall _ _) H s Hin). Qed.

Lemma fmt_raw_nonempty s rest : str_ok true s = true -> (1 <= length (fmt_raw s ++ rest))%nat.
Proof.
  intro H. destruct s as [r|r|v]; cbn [fmt_raw]; try (cbn [app length]; lia).
  cbn [str_ok] in H. destruct (unq_ok_parts true r H) as [_ [Hf _]]. destruct r; [discriminate Hf|cbn [app length]; lia].
Qed.

Lemma fmt_path_cons s tl : tl <> [] -> fmt_path (s :: tl) = fmt_snode true s ++ cDOT :: fmt_path tl.
Proof. destruct tl; [congruence|reflexivity]. Qed.

Lemma parse_path_fmt : forall path fuel acc rest,
  path <> [] -> forallb wf_key path = true -> path_end rest = true -> (length path <= fuel)%nat ->
  (forall s, In s path -> match norm_snode true s with SDq [] => False | _ => True end) ->
  parse_path fuel (fmt_path path ++ rest) acc = POk (acc ++ map (norm_snode true) path, rest).
Proof.
  induction path as [|s tl IH]; intros fuel acc rest Hne Hwf Hend Hfuel Hdq; [congruence|].
  cbn [forallb] in Hwf. apply andb_prop in Hwf as [Hs Htl].
  destruct (wf_key_parts s Hs) as [Hok [Hat Hlen]].
  destruct fuel as [|f]; [simpl in Hfuel; lia|].
  set (s' := norm_snode true s) in *.
  assert (Hd : match s' with SDq [] => False | _ => True end) by (apply Hdq; left; reflexivity).
  (* the text after this segment *)
  set (after := match tl with [] => rest | _ => cDOT :: fmt_path tl ++ rest end).
  assert (Etext : fmt_path (s :: tl) ++ rest = fmt_raw s' ++ after).
  { subst after. destruct tl as [|s2 tl2].
    - cbn [fmt_path]. rewrite fmt_snode_key. reflexivity.
    - rewrite fmt_path_cons by discriminate. rewrite fmt_snode_key. rewrite <- app_assoc. reflexivity. }
  rewrite Etext.
  assert (Hstop : stop_ok true after = true).
  { subst after. destruct tl; [apply path_end_stop; exact Hend|reflexivity]. }
  destruct (key_head s' after Hok Hd) as [c [t [Eh [[Hsp [Htop [Hkey [Hlp Hbang]]]] _]]]].
  cbn [parse_path]. rewrite Eh. rewrite (skip_space_stop c t false Hsp). cbn iota beta.
  rewrite Hlp. cbn [orb].
  assert ((c =? cDOT) = false) as ->.
  { unfold is_key_delim in Hkey. repeat (apply orb_false_elim in Hkey as [Hkey ?]). assumption. }
  rewrite <- Eh. rewrite (parse_string_node true s' after Hok Hstop).
  rewrite Hat, Hlen.
  subst after. destruct tl as [|s2 tl2].
  - (* last segment *)
    cbn [map]. pose proof (path_end_skip rest Hend) as Hsk.
    destruct (skip_space rest false) as [nl2 l2]. cbn [fst snd] in Hsk.
    destruct l2 as [|r2 tl2]; [reflexivity|]. rewrite Hsk. reflexivity.
  - rewrite (skip_space_stop cDOT _ false) by reflexivity. cbn iota beta.
    change (cDOT =? cDOT) with true. cbn [negb orb].
    rewrite IH; try assumption; try discriminate.
    + cbn [map]. rewrite app_assoc1. reflexivity.
    + simpl in Hfuel. simpl. lia.
    + intros x Hx. apply Hdq. right. exact Hx.
Qed.

Lemma fmt_path_length path rest : forallb wf_key path = true -> (length path <= length (fmt_path path ++ rest))%nat.
Proof.
  induction path as [|s tl IH]; intro H; [simpl; lia|].
  cbn [forallb] in H. apply andb_prop in H as [Hs Htl]. destruct (wf_key_parts s Hs) as [Hok _].
  destruct tl as [|s2 tl2].
  - cbn [fmt_path]. rewrite fmt_snode_key. pose proof (fmt_raw_nonempty _ rest Hok). simpl. lia.
  - rewrite fmt_path_cons by discriminate. rewrite fmt_snode_key. rewrite <- app_assoc.
    specialize (IH Htl). rewrite app_length. cbn [app length] in *. lia.
Qed.

(* head of a printed path *)
Lemma path_head path rest : path <> [] -> forallb wf_key path = true ->
  (forall s, In s path -> match norm_snode true s with SDq [] => False | _ => True end) ->
  exists c tl, fmt_path path ++ rest = c :: tl /\ key_head_ok c /\ starts_with [cDQ; cDQ; cDQ] (c :: tl) = false.
Proof.
  intros Hne Hwf Hdq. destruct path as [|s tl]; [congruence|].
  cbn [forallb] in Hwf. apply andb_prop in Hwf as [Hs _]. destruct (wf_key_parts s Hs) as [Hok _].
  assert (Hd : match norm_snode true s with SDq [] => False | _ => True end) by (apply Hdq; left; reflexivity).
  destruct tl as [|s2 tl2].
  - cbn [fmt_path]. rewrite fmt_snode_key. apply key_head; assumption.
  - rewrite fmt_path_cons by discriminate. rewrite fmt_snode_key. rewrite <- app_assoc. apply key_head; assumption.
Qed.

(* ------------------------------------------------------------------ scalars *)

Definition snode_of (c : scalar) : snode :=
  match c with
  | CNull => SUnq w_null
  | CBool b => SUnq (if b then w_true else w_false)
  | CSusp b => SUnq (if b then w_suspend else w_unsuspend)
  | CNum r => SUnq r
  | CStr s => s
  end.

Lemma unesc_no_bsl r : mem cBSL r = false -> unesc r = r.
Proof.
  induction r as [|c tl IH]; [reflexivity|]. cbn [mem existsb]. intro H. apply orb_false_elim in H as [H1 H2].
  rewrite unesc_plain by (rewrite N.eqb_sym; exact H1). rewrite IH by exact H2. reflexivity.
Qed.

Section Scalars.
Variable is_num : str -> bool.

Lemma scalar_snode c : wf_scalar is_num c = true ->
  str_ok false (snode_of c) = true /\ classify is_num (snode_of c) = c /\ fmt_scalar c = fmt_raw (snode_of c).
Proof.
  destruct c as [|b|b|r|s]; cbn [wf_scalar snode_of fmt_scalar].
  - intros _. repeat split; vm_compute; reflexivity.
  - intros _. destruct b; repeat split; vm_compute; reflexivity.
  - intros _. destruct b; repeat split; vm_compute; reflexivity.
  - intro H. apply andb_prop in H as [H H3]. apply andb_prop in H as [H1 H2]. apply negb_t in H2.
    assert (Ev : sval (SUnq r) = r).
    { cbn [sval]. rewrite (unesc_no_bsl r H2). apply (trim_id_unq false r H1). }
    split; [exact H1|]. split; [|reflexivity].
    cbn [classify]. destruct (kw_class (sval (SUnq r))); [discriminate H3|]. rewrite H3, Ev. reflexivity.
  - destruct s as [r|r|v].
    + intro H. apply andb_prop in H as [H1 H3].
      split; [exact H1|]. split; [|reflexivity].
      cbn [classify]. destruct (kw_class (sval (SUnq r))); [discriminate H3|]. apply negb_t in H3. rewrite H3. reflexivity.
    + intro H. split; [exact H|]. split; reflexivity.
    + intro H. split; [exact H|]. split; reflexivity.
Qed.

(* head of a printed value *)
Lemma value_head s rest : str_ok false s = true ->
  exists c tl, fmt_raw s ++ rest = c :: tl /\ is_space c = false /\ (c =? cLB) = false /\ (c =? cAT) = false /\ (c =? cLC) = false.
Proof.
  intro Hok. destruct s as [r|r|v]; cbn [fmt_raw str_ok] in *.
  - destruct (unq_ok_parts false r Hok) as [Ht [Hf _]].
    destruct r as [|c tl]; [discriminate Hf|].
    destruct (first_ok_head false (c :: tl) Hf) as [c' [tl' [E [Hsp [_ [_ [_ [Hat _]]]]]]]].
    injection E as <- <-.
    assert (T : is_top_delim c = false).
    { cbn [toks_ok] in Ht. destruct (c =? cBSL) eqn:EB.
      - apply N.eqb_eq in EB. subst c. reflexivity.
      - cbn [andb] in Ht. apply andb_prop in Ht as [P _]. apply plain_unq_val in P. tauto. }
    unfold is_top_delim in T. repeat (apply orb_false_elim in T as [T ?]).
    exists c, (tl ++ rest). split; [reflexivity|]. repeat split; assumption.
  - exists cDQ, (r ++ [cDQ] ++ rest). repeat split; try reflexivity. cbn [app]. rewrite <- app_assoc. reflexivity.
  - exists cSQ, (escape_sq v ++ [cSQ] ++ rest). repeat split; try reflexivity. cbn [app]. rewrite <- app_assoc. reflexivity.
Qed.

End Scalars.
