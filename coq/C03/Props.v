(* C03 — Formatting is idempotent.  Statements only.

   FULL PROPERTY (monitored on the implementation over the whole language by the search cases of Check.v, codes
   10 and 11; NOT a theorem: it is false for d2, see coq/C03/findings.json):
     forall text, errors (Parse text) = [] ->
       errors (Parse (Format (ast text))) = [] /\ Format (ast (Format (ast text))) = Format (ast text).

   PROVED (…_F): the same statement for every AST of the fragment F defined by [wf_file] in Format.v — key
   paths of unquoted / double quoted / single quoted segments (any raw text made of plain runes and `\c`
   escapes), primary values, scalar values (null, booleans, suspension markers, numbers, the three string
   forms), nested maps on one line or on several lines with or without blank lines, of ANY size and nesting
   depth.  format_file / parse_file are the models of d2format.Format / d2parser.Parse of Format.v, compared
   with the implementation on every fragment case (code 1).
   Outside F: comments, block comments, block strings, arrays, edges and edge groups, substitutions, imports,
   spreads, globs filters, line continuations, board blocks (layers / scenarios / steps keys), the empty key "",
   keys starting with '!', files written on one line with two or more declarations (refuted below). *)
From Coq Require Import List NArith Bool.
Import ListNotations.
Require Import V.C05.Model V.C03.Format V.C03.Proofs V.C03.Keys V.C03.Roundtrip V.C03.Idem.
Open Scope N_scope.

(* the formatted text of an AST of F parses without errors ... *)
Theorem C03_fmt_parses_F :
  forall (is_num : str -> bool) (a : file), wf_file is_num a = true ->
    exists a', parse_file is_num (format_file a) = POk a'.
Proof. exact fmt_parses_file. Qed.

(* ... to the normal form of the AST: what the printer changes is exactly the letter case of reserved keywords
   in unquoted key segments, the blank-line flag of first declarations and of declarations of one-line maps, empty
   maps (dropped, a primary value becomes the value) *)
Theorem C03_parse_format_F :
  forall (is_num : str -> bool) (a : file), wf_file is_num a = true ->
    parse_file is_num (format_file a) = POk (norm_file a).
Proof. exact parse_format_file. Qed.

Theorem C03_format_normalize_F :
  forall (is_num : str -> bool) (a : file), wf_file is_num a = true ->
    format_file (norm_file a) = format_file a.
Proof. exact format_normalize_file. Qed.

(* idempotence on F: formatting the AST parsed from the formatted text reproduces the text *)
Theorem C03_fmt_idempotent_F_partial :
  forall (is_num : str -> bool) (a : file), wf_file is_num a = true ->
    exists a', parse_file is_num (format_file a) = POk a' /\ format_file a' = format_file a.
Proof. exact fmt_idempotent_file. Qed.

(* the guard "a file on one line holds at most one declaration" of wf_file is necessary: "a; b" *)
Theorem C03_fmt_idempotent_one_line_file_refuted :
  format_file one_line_witness = [97; 59; 32; 98; 10]
  /\ exists a', parse_file (fun _ => false) (format_file one_line_witness) = POk a'
                /\ format_file a' = [97; 10; 98; 10]
                /\ format_file a' <> format_file one_line_witness.
Proof. exact one_line_file_refutes. Qed.

(* reserved keywords: lower-casing a key text whose lower case is in d2ast.ReservedKeywords is a projection *)
Theorem C03_keyword_lowercasing_idempotent :
  forall r : str, lower_kw true (lower_kw true r) = lower_kw true r.
Proof. exact lower_kw_idem. Qed.

(* the raw-tracking scanner of this model computes the value V.C05.Model.scan_unq computes *)
Theorem C03_scanner_agrees_with_C05 :
  forall (inKey : bool) (l : str),
    match scan_unq_r inKey l [] [] with
    | POk (v, _, rest) => scan_unq inKey l [] = POk (v, rest)
    | PErr => scan_unq inKey l [] = PErr
    | PUns => scan_unq inKey l [] = PUns
    end.
Proof. exact scan_unq_r_value'. Qed.

(* non-vacuity: a file with keyword case variants, escapes, all three quoting forms, primary values, nested
   one-line and multi-line maps and blank lines is in F and differs from its normal form *)
Example C03_F_satisfiable :
  wf_file sample_is_num sample_file = true /\ norm_file sample_file <> sample_file.
Proof. exact sample_in_F. Qed.

Print Assumptions C03_fmt_parses_F.
Print Assumptions C03_parse_format_F.
Print Assumptions C03_format_normalize_F.
Print Assumptions C03_fmt_idempotent_F_partial.
Print Assumptions C03_fmt_idempotent_one_line_file_refuted.
Print Assumptions C03_keyword_lowercasing_idempotent.
Print Assumptions C03_scanner_agrees_with_C05.
