(* C03 — the printer does not see the difference between an AST and its normal form; idempotence. *)
From Coq Require Import List NArith Bool Arith Lia.
Import ListNotations.
Require Import V.Gen.C05Tables V.C05.Model V.C05.Proofs V.C03.Format V.C03.Proofs V.C03.Keys V.C03.Roundtrip.
Open Scope N_scope.

Lemma fmt_snode_norm s : fmt_snode true (norm_snode true s) = fmt_snode true s.
Proof. rewrite !fmt_snode_key. rewrite norm_snode_idem. reflexivity. Qed.

Lemma fmt_path_norm path : fmt_path (map (norm_snode true) path) = fmt_path path.
Proof.
  induction path as [|s tl IH]; [reflexivity|]. destruct tl as [|s2 tl2].
  - cbn [map fmt_path]. apply fmt_snode_norm.
  - change (map (norm_snode true) (s :: s2 :: tl2)) with (norm_snode true s :: map (norm_snode true) (s2 :: tl2)).
    rewrite (fmt_path_cons (norm_snode true s)) by discriminate. rewrite (fmt_path_cons s) by discriminate.
    rewrite fmt_snode_norm, IH. reflexivity.
Qed.

Lemma gap_norm first inl n : gap_of (norm_node first inl n) = gap_of n && negb first && negb inl.
Proof. rewrite norm_node_key. reflexivity. Qed.

Definition fmt_stable (n : node) : Prop := forall d first inl, fmt_node d (norm_node first inl n) = fmt_node d n.

Lemma inl_rest_norm d ol ns : Forall fmt_stable ns ->
  inl_rest (items d (map (norm_node false ol) ns)) = inl_rest (items d ns).
Proof.
  induction ns as [|n tl IH]; intro H; [reflexivity|].
  pose proof (Forall_inv H) as Hn. pose proof (Forall_inv_tail H) as Htl.
  cbn [map items inl_rest]. fold (items d (map (norm_node false ol) tl)). fold (items d tl).
  rewrite Hn, (IH Htl). reflexivity.
Qed.

Lemma join_rest_norm d ns : Forall fmt_stable ns ->
  join_rest d (items d (map (norm_node false false) ns)) = join_rest d (items d ns).
Proof.
  induction ns as [|n tl IH]; intro H; [reflexivity|].
  pose proof (Forall_inv H) as Hn. pose proof (Forall_inv_tail H) as Htl.
  cbn [map items join_rest]. fold (items d (map (norm_node false false) tl)). fold (items d tl).
  rewrite Hn, (IH Htl), gap_norm. cbn [negb]. rewrite !andb_true_r. reflexivity.
Qed.

Lemma body_norm d ol n1 tl : Forall fmt_stable (n1 :: tl) ->
  body d ol (norm_nodes ol (n1 :: tl)) = body d ol (n1 :: tl).
Proof.
  intro H. pose proof (Forall_inv H) as Hn. pose proof (Forall_inv_tail H) as Htl.
  unfold body. cbn [norm_nodes]. destruct ol.
  - cbn [items map join_inline]. fold (items d (map (norm_node false true) tl)). fold (items d tl).
    rewrite Hn, (inl_rest_norm d true tl Htl). reflexivity.
  - cbn [items map join_nested]. fold (items (S d) (map (norm_node false false) tl)). fold (items (S d) tl).
    rewrite Hn, (join_rest_norm (S d) tl Htl). reflexivity.
Qed.

Theorem fmt_stable_all : forall n, fmt_stable n.
Proof.
  induction n as [g path prim h ns IH] using node_ind2. intros d first inl.
  rewrite norm_node_key. cbn [norm_parts gap_of].
  destruct h as [|c|ol].
  - cbn [fst snd]. rewrite !fmt_node_eq, fmt_path_norm. reflexivity.
  - cbn [fst snd]. rewrite !fmt_node_eq, fmt_path_norm. reflexivity.
  - destruct ns as [|n1 tl].
    + destruct prim as [c|]; cbn [fst snd]; rewrite !fmt_node_eq, fmt_path_norm; cbn [prim_text sep_of app];
        rewrite ?app_nil_r; reflexivity.
    + cbn [fst snd]. rewrite !fmt_node_eq, fmt_path_norm.
      change (norm_nodes ol (n1 :: tl)) with (norm_node true ol n1 :: map (norm_node false ol) tl) at 1.
      cbv iota. change (norm_node true ol n1 :: map (norm_node false ol) tl) with (norm_nodes ol (n1 :: tl)).
      rewrite (body_norm d ol n1 tl IH). reflexivity.
Qed.

Section Idem.
Variable is_num : str -> bool.

Theorem format_normalize_file a : wf_file is_num a = true -> format_file (norm_file a) = format_file a.
Proof.
  destruct a as [ol ns]. cbn [wf_file]. intro H. apply andb_prop in H as [Hol _].
  destruct ns as [|n tl]; [reflexivity|].
  assert (Hst : Forall fmt_stable tl) by (apply Forall_forall; intros; apply fmt_stable_all).
  cbn [norm_file norm_nodes format_file]. destruct ol.
  - cbn [negb orb] in Hol. destruct tl as [|n2 tl2]; [|discriminate Hol].
    cbn [map join_file join_inline join_rest inl_rest]. rewrite (fmt_stable_all n). reflexivity.
  - cbn [map join_file]. fold (items 0 (map (norm_node false false) tl)). fold (items 0 tl).
    rewrite (fmt_stable_all n), (join_rest_norm 0 tl Hst). reflexivity.
Qed.

(* formatting what the parser returns for the formatted text gives the formatted text *)
Theorem fmt_idempotent_file a : wf_file is_num a = true ->
  exists a', parse_file is_num (format_file a) = POk a' /\ format_file a' = format_file a.
Proof.
  intro H. exists (norm_file a). split; [apply parse_format_file; exact H|apply format_normalize_file; exact H].
Qed.

End Idem.

(* ------------------------------------------------------------------ the guard on one-line files is necessary *)

Definition one_line_witness : file :=
  File true [Key false [SUnq [97]] None HNone []; Key false [SUnq [98]] None HNone []].

(* "a; b" (no newline): formatted to "a; b\n", which parses to a two-line file that is formatted to "a\nb\n" *)
Lemma one_line_file_refutes :
  format_file one_line_witness = [97; 59; 32; 98; 10]
  /\ exists a', parse_file (fun _ => false) (format_file one_line_witness) = POk a'
                /\ format_file a' = [97; 10; 98; 10]
                /\ format_file a' <> format_file one_line_witness.
Proof.
  split; [reflexivity|]. eexists. split; [vm_compute; reflexivity|]. split; [reflexivity|discriminate].
Qed.

(* ------------------------------------------------------------------ tie to the C05 scanners *)

(* the value computed by the raw-tracking unquoted scanner is the one of V.C05.Model.scan_unq (which is checked
   against d2parser.ParseKey / ParseValue by the C05 correspondence) *)
Lemma scan_unq_r_value inKey : forall n l, (length l <= n)%nat -> forall av ar,
  match scan_unq_r inKey l av ar with
  | POk (v, _, rest) => scan_unq inKey l av = POk (v, rest)
  | PErr => scan_unq inKey l av = PErr
  | PUns => scan_unq inKey l av = PUns
  end.
Proof.
  induction n as [|n IH]; intros l Hn av ar.
  - destruct l; [reflexivity|simpl in Hn; lia].
  - destruct l as [|r tl]; [reflexivity|].
    cbn [scan_unq_r scan_unq].
    destruct (is_top_delim r); [reflexivity|].
    destruct (inKey && is_key_delim r); [reflexivity|].
    destruct (inKey && (r =? cDASH)).
    + destruct tl as [|r2 tl2]; [reflexivity|].
      destruct (is_top_delim r2); [reflexivity|].
      destruct ((r2 =? cDASH) || (r2 =? cGT) || (r2 =? cSTAR)); [reflexivity|].
      destruct (negb inKey && (r2 =? cDOLLAR)); [reflexivity|].
      destruct (r2 =? cBSL).
      * destruct tl2 as [|r3 tl3]; [reflexivity|]. destruct (r3 =? cNL); [reflexivity|].
        apply IH. simpl in Hn. lia.
      * apply IH. simpl in Hn. lia.
    + destruct (negb inKey && (r =? cDOLLAR)); [reflexivity|].
      destruct (r =? cBSL).
      * destruct tl as [|r2 tl2]; [reflexivity|]. destruct (r2 =? cNL); [reflexivity|].
        apply IH. simpl in Hn. lia.
      * apply IH. simpl in Hn. lia.
Qed.

Lemma scan_unq_r_value' inKey l :
  match scan_unq_r inKey l [] [] with
  | POk (v, _, rest) => scan_unq inKey l [] = POk (v, rest)
  | PErr => scan_unq inKey l [] = PErr
  | PUns => scan_unq inKey l [] = PUns
  end.
Proof. apply (scan_unq_r_value inKey (length l) l (le_n _)). Qed.

Lemma fmt_parses_file is_num a : wf_file is_num a = true -> exists a', parse_file is_num (format_file a) = POk a'.
Proof. intro H. exists (norm_file a). apply parse_format_file. exact H. Qed.

(* ------------------------------------------------------------------ a non-trivial member of F *)

(*  Shape.a\:b: 'it''s' {
      "x y": null; k-1: 42
    }

    q: "t\tx" {
      deep: {
        z
      }
    }                                   (is_num accepts exactly "42") *)
Definition sample_file : file :=
  File false
    [ Key false [SUnq [83;104;97;112;101]; SUnq [97;92;58;98]] (Some (CStr (SSq [105;116;39;115]))) (HMap false)
        [ Key false [SDq [120;32;121]] None (HScal CNull) [];
          Key true [SUnq [107;45;49]] None (HScal (CNum [52;50])) [] ];
      Key true [SUnq [113]] (Some (CStr (SDq [116;92;116;120]))) (HMap false)
        [ Key false [SUnq [100;101;101;112]] None (HMap true) [ Key false [SUnq [122]] None HNone [] ] ] ].

Definition sample_is_num (s : str) : bool := str_eqb s [52;50].

Lemma sample_in_F : wf_file sample_is_num sample_file = true
  /\ norm_file sample_file <> sample_file.
Proof. split; [vm_compute; reflexivity|discriminate]. Qed.
