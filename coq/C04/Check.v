(* Executable checker for C04 cases. *)
From Coq Require Import List NArith Bool.
Import ListNotations.
Require Import V.Lib.RunCases V.C05.Model.
Require Export V.C04.Model.
Open Scope N_scope.

Inductive case :=
| CCompile (ok2 : bool) (clauses : list (N * str * str))
    (* an input that compiles: ok2 = its formatted text compiles too; for every clause code the canonical
       projection of compile(text) and of compile(Format(Parse(text))) (whole, or the same window around the
       first difference when long) *)
| CBoard (items : list item) (base1 : list N) (boards1 : list (list N)) (base2 : list N) (boards2 : list (list N)).
    (* board model: the items rendered as D2 text (D n = object "o<n>", B own = a scenarios block with one
       board), objects of the root board and of every scenario as the compiler reports them, before (1) and
       after (2) formatting *)

Fixpoint insert (x : N) (l : list N) : list N :=
  match l with [] => [x] | y :: tl => if x <=? y then x :: l else y :: insert x tl end.
Definition isort (l : list N) : list N := fold_right insert [] l.

Definition nl_eqb (a b : list N) : bool := list_eqb N.eqb (isort a) (isort b).

Definition check_case (c : case) : list N :=
  match c with
  | CCompile ok2 clauses =>
      flag ok2 31 ++ flat_map (fun '(code, a, b) => flag (str_eqb a b) code) clauses
  | CBoard items base1 boards1 base2 boards2 =>
      (* the model of inheritance and of the printer's move against the implementation *)
      flag (nl_eqb (fst (meaning items)) base1 && list_eqb nl_eqb (snd (meaning items)) boards1) 1
      ++ flag (nl_eqb (fst (meaning (fmt_move items))) base2 && list_eqb nl_eqb (snd (meaning (fmt_move items))) boards2) 1
      (* the property on the implementation's output: same objects in the base board and in every scenario *)
      ++ flag (nl_eqb base1 base2) 11 ++ flag (list_eqb nl_eqb boards1 boards2) 12
  end.
