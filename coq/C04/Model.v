(* C04 — formatting preserves the diagram's meaning.  Model (definitions only).

   Part 1 (fragment F of V.C03.Format): what the compiler reads of a declaration — the values of its key
   segments with reserved keywords folded to lower case when unquoted (d2ir: ReservedKeywords[ToLower(s)] &&
   IsUnquoted), its primary value, its value, its children — is the [view] below.  The printer's normal
   form changes the AST only where the view does not look, except that it drops empty maps.

   Part 2 (board blocks): a tiny model of what printer._map does with layers / scenarios / steps blocks
   (moved behind all other declarations of their map) and of what a scenario / step inherits (the
   declarations of the enclosing board that precede it: d2ir compiler.overlay copies the base as it is when
   the board is compiled). *)
From Coq Require Import List NArith Bool.
Import ListNotations.
Require Import V.Gen.C05Tables V.C05.Model V.C03.Format.
Open Scope N_scope.

(* ------------------------------------------------------------------ part 1: the compiler's view *)

(* keyword folding of an unquoted key *)
Definition fold_kw (v : str) : str := if is_reserved (lower_str v) then lower_str v else v.

(* (is unquoted, value) of a key segment *)
Definition key_view (s : snode) : bool * str :=
  match s with SUnq _ => (true, fold_kw (sval s)) | _ => (false, sval s) end.

Inductive sview := WNull | WBool (b : bool) | WSusp (b : bool) | WNum (raw : str) | WStr (unquoted : bool) (v : str).

Definition scalar_view (c : scalar) : sview :=
  match c with
  | CNull => WNull | CBool b => WBool b | CSusp b => WSusp b | CNum r => WNum r
  | CStr s => WStr (match s with SUnq _ => true | _ => false end) (sval s)
  end.

Inductive hview := WNone | WScal (c : sview) | WMap.
Inductive dview := DView (path : list (bool * str)) (prim : option sview) (h : hview) (children : list dview).

Fixpoint view_node (n : node) : dview :=
  match n with
  | Key _ path prim h ns =>
      DView (map key_view path) (option_map scalar_view prim)
            (match h with HNone => WNone | HScal c => WScal (scalar_view c) | HMap _ => WMap end)
            (match h with HMap _ => map view_node ns | _ => [] end)
  end.

Definition view_file (a : file) : list dview := match a with File _ ns => map view_node ns end.

(* no declaration has an empty map "{}" as value *)
Fixpoint no_empty_map (n : node) : bool :=
  match n with
  | Key _ _ _ h ns =>
      match h with
      | HMap _ => match ns with [] => false | _ => forallb no_empty_map ns end
      | _ => true
      end
  end.
Definition no_empty_file (a : file) : bool := match a with File _ ns => forallb no_empty_map ns end.

(* ------------------------------------------------------------------ part 2: board blocks *)

(* a declaration of a board map: an ordinary one (named by a number), or a scenarios/steps block holding one
   board with its own declarations *)
Inductive item := D (n : N) | B (own : list N).

Definition is_decl (i : item) : bool := match i with D _ => true | B _ => false end.

(* the objects of the base board *)
Fixpoint base (l : list item) : list N :=
  match l with [] => [] | D n :: tl => n :: base tl | B _ :: tl => base tl end.

(* the objects of every board: what precedes the block in the enclosing map, then its own declarations *)
Fixpoint boards (pre : list N) (l : list item) : list (list N) :=
  match l with
  | [] => []
  | D n :: tl => boards (pre ++ [n]) tl
  | B own :: tl => (pre ++ own) :: boards pre tl
  end.

Definition meaning (l : list item) : list N * list (list N) := (base l, boards [] l).

(* printer._map: board blocks are skipped in the main loop and re-emitted, in order, at the end *)
Definition fmt_move (l : list item) : list item := filter is_decl l ++ filter (fun i => negb (is_decl i)) l.

Fixpoint owns (l : list item) : list (list N) :=
  match l with [] => [] | D _ :: tl => owns tl | B own :: tl => own :: owns tl end.

(* no ordinary declaration after a board block *)
Fixpoint boards_last (l : list item) : bool :=
  match l with
  | [] => true
  | D _ :: tl => boards_last tl
  | B _ :: tl => forallb (fun i => negb (is_decl i)) tl
  end.
