(* C04 — Formatting preserves the diagram's meaning.  Statements only.

   FULL PROPERTY (monitored on the implementation by the search cases, codes 10..31; NOT a theorem — it is false
   for d2, see coq/C04/findings.json):
     forall text, compiles text -> graph_equiv (compile (Format (Parse text))) (compile text).

   PROVED
   (1) on the fragment F of V.C03.Format (key paths, scalars, nested maps; any size and depth): what the
       compiler reads of the AST parsed from the formatted text — key values with unquoted reserved keywords
       folded to lower case as d2ir does, primary values, values, children — is what it reads of the original
       AST, provided no map value is empty ("{}" is dropped by the printer; refuted without the guard).
   (2) on a model of board blocks: the printer moves scenarios / steps blocks behind the other declarations
       of their map, after which every board inherits all of them; the meaning is preserved exactly when the
       blocks already are last (refuted otherwise).
   Not modelled: edges, globs, vars, imports, classes, the attribute semantics of d2compiler (search only). *)
From Coq Require Import List NArith Bool.
Import ListNotations.
Require Import V.C05.Model V.C03.Format V.C04.Model V.C04.Proofs.
Open Scope N_scope.

Theorem C04_fmt_preserves_keys_F_partial :
  forall (is_num : str -> bool) (a : file), wf_file is_num a = true -> no_empty_file a = true ->
    exists a', parse_file is_num (format_file a) = POk a' /\ view_file a' = view_file a.
Proof. exact fmt_preserves_keys. Qed.

(* the only thing the printer changes in a key is the letter case of a reserved keyword, and the keyword
   folding the IR applies to unquoted keys (fold_kw, over the regenerated table reserved_keywords) does not
   see that change *)
Theorem C04_keyword_folding :
  forall r : str, fold_kw (sval (SUnq (lower_kw true r))) = fold_kw (sval (SUnq r)).
Proof. exact fold_kw_lower_kw. Qed.

Theorem C04_fmt_drops_empty_map_refuted :
  wf_file (fun _ => false) empty_map_witness = true
  /\ format_file empty_map_witness = [115;116;101;112;115;46;97;10]
  /\ exists a', parse_file (fun _ => false) (format_file empty_map_witness) = POk a'
                /\ view_file a' <> view_file empty_map_witness.
Proof. exact empty_map_refutes. Qed.

(* x; scenarios: {s: {z}}; y  —  scenario s holds {x, z} before and {x, y, z} after formatting *)
Theorem C04_fmt_moves_board_refuted :
  meaning board_witness = ([1; 2], [[1; 3]]) /\ meaning (fmt_move board_witness) = ([1; 2], [[1; 2; 3]])
  /\ meaning (fmt_move board_witness) <> meaning board_witness /\ boards_last board_witness = false.
Proof. exact board_move_refutes. Qed.

Theorem C04_fmt_preserves_boards_when_last :
  forall l : list item, boards_last l = true -> meaning (fmt_move l) = meaning l.
Proof. exact meaning_preserved_boards_last. Qed.

(* exactly what changes otherwise: the base board keeps its objects, every board inherits all of them *)
Theorem C04_meaning_after_move :
  forall l : list item, meaning (fmt_move l) = (base l, map (app (base l)) (owns l)).
Proof. exact meaning_after_move. Qed.

Example C04_guards_satisfiable :
  boards_last [D 1; D 2; B [3]; B [4]] = true /\ no_empty_file V.C03.Idem.sample_file = true.
Proof. split; reflexivity. Qed.

Print Assumptions C04_fmt_preserves_keys_F_partial.
Print Assumptions C04_keyword_folding.
Print Assumptions C04_fmt_drops_empty_map_refuted.
Print Assumptions C04_fmt_moves_board_refuted.
Print Assumptions C04_fmt_preserves_boards_when_last.
Print Assumptions C04_meaning_after_move.
