From Coq Require Import List NArith Bool Arith Lia.
Import ListNotations.
Require Import V.Gen.C05Tables V.C05.Model V.C05.Proofs V.C03.Format V.C03.Proofs V.C03.Keys V.C03.Roundtrip V.C03.Idem.
Require Import V.C04.Model.
Open Scope N_scope.

(* ================================================================== part 1 *)

(* facts about the regenerated keyword table used below: no keyword contains a backslash or ends in white space *)
Definition kw_table4_ok : bool :=
  forallb (fun w => negb (mem cBSL w) && negb (is_space (last w 0)) && match w with [] => false | _ => true end)
          reserved_keywords.
Lemma kw_table4 : kw_table4_ok = true.  Proof. vm_compute. reflexivity. Qed.

Lemma reserved_facts4 w : is_reserved w = true ->
  mem cBSL w = false /\ is_space (last w 0) = false /\ w <> [].
Proof.
  intro H. apply reserved_in in H.
  pose proof (proj1 (forallb_forall _ _) kw_table4 w H) as F. cbv beta in F.
  apply andb_prop in F as [F F3]. apply andb_prop in F as [F1 F2].
  repeat split; [apply negb_t; exact F1|apply negb_t; exact F2|]. destruct w; [discriminate F3|discriminate].
Qed.

Lemma lower_a_space c : is_space c = true -> lower_a c = c.
Proof.
  intro H. unfold lower_a.
  destruct ((65 <=? c) && (c <=? 90)) eqn:E1.
  - exfalso. apply andb_prop in E1 as [A B]. apply N.leb_le in A. apply N.leb_le in B.
    unfold is_space in H.
    repeat (apply orb_prop in H as [H|H]);
      try (apply andb_prop in H as [H1 H2]; apply N.leb_le in H1; apply N.leb_le in H2; lia);
      apply N.eqb_eq in H; lia.
  - destruct (c =? 304) eqn:E2.
    + apply N.eqb_eq in E2. subst c. discriminate H.
    + destruct (c =? 8490) eqn:E3; [apply N.eqb_eq in E3; subst c; discriminate H|reflexivity].
Qed.

Lemma mem_bsl_lower r : mem cBSL (lower_str r) = false -> mem cBSL r = false.
Proof.
  unfold mem, lower_str. induction r as [|c tl IH]; [reflexivity|]. cbn [map existsb]. intro H.
  apply orb_false_elim in H as [H1 H2]. rewrite (IH H2), orb_false_r.
  destruct (cBSL =? c) eqn:E; [|reflexivity]. apply N.eqb_eq in E. subst c. discriminate H1.
Qed.

Lemma last_map {A B} (f : A -> B) l d d' : l <> [] -> last (map f l) d' = f (last l d).
Proof.
  induction l as [|x xs IH]; [congruence|]. intros _. destruct xs as [|y ys]; [reflexivity|].
  change (last (map f (x :: y :: ys)) d') with (last (map f (y :: ys)) d').
  change (last (x :: y :: ys) d) with (last (y :: ys) d). apply IH. discriminate.
Qed.

Lemma space_last_lower r : r <> [] -> is_space (last (lower_str r) 0) = false -> is_space (last r 0) = false.
Proof.
  intros Hne H. unfold lower_str in H. rewrite (last_map lower_a r 0 0 Hne) in H.
  destruct (is_space (last r 0)) eqn:E; [|reflexivity]. rewrite (lower_a_space _ E) in H. congruence.
Qed.

(* a key text whose lower case is a reserved keyword has no escapes and no trailing white space: its value
   is the text itself *)
Lemma reserved_raw_value r : is_reserved (lower_str r) = true -> trim_right (unesc r) = r.
Proof.
  intro H. destruct (reserved_facts4 _ H) as [Hb [Hs Hne]].
  assert (Hr : r <> []) by (destruct r; [exfalso; apply Hne; reflexivity|discriminate]).
  rewrite (unesc_no_bsl r (mem_bsl_lower r Hb)).
  apply trim_right_id; [exact Hr|apply space_last_lower; assumption].
Qed.

(* the folding of reserved keywords, stated on the table: the text the printer writes for an unquoted key
   (lower case exactly when that is a keyword) has the same folded value as the original text *)
Lemma fold_kw_lower_kw r : fold_kw (sval (SUnq (lower_kw true r))) = fold_kw (sval (SUnq r)).
Proof.
  unfold lower_kw. cbn [andb]. destruct (is_reserved (lower_str r)) eqn:E; [|reflexivity].
  destruct (reserved_facts _ E) as [L _].
  cbn [sval]. rewrite (reserved_raw_value r E).
  assert (E2 : is_reserved (lower_str (lower_str r)) = true) by (rewrite L; exact E).
  rewrite (reserved_raw_value (lower_str r) E2).
  unfold fold_kw. rewrite L, E. reflexivity.
Qed.

Lemma key_view_norm s : key_view (norm_snode true s) = key_view s.
Proof. destruct s as [r|r|v]; try reflexivity. cbn [norm_snode key_view]. rewrite fold_kw_lower_kw. reflexivity. Qed.

Definition view_stable (n : node) : Prop :=
  forall first inl, no_empty_map n = true -> view_node (norm_node first inl n) = view_node n.

Lemma map_view_norm f ns : Forall view_stable ns -> forallb no_empty_map ns = true ->
  (forall n, exists first inl, f n = norm_node first inl n) ->
  map view_node (map f ns) = map view_node ns.
Proof.
  intros H Hne Hf. induction ns as [|n tl IH]; [reflexivity|].
  cbn [forallb] in Hne. apply andb_prop in Hne as [H1 H2].
  cbn [map]. destruct (Hf n) as [first [inl E]]. rewrite E.
  rewrite (Forall_inv H first inl H1). rewrite (IH (Forall_inv_tail H) H2). reflexivity.
Qed.

Theorem view_stable_all : forall n, view_stable n.
Proof.
  induction n as [g path prim h ns IH] using node_ind2. intros first inl Hne.
  rewrite norm_node_key. cbn [norm_parts gap_of view_node].
  assert (Hp : map key_view (map (norm_snode true) path) = map key_view path).
  { rewrite map_map. apply map_ext. intro s. apply key_view_norm. }
  destruct h as [|c|ol].
  - cbn [fst snd view_node]. rewrite Hp. reflexivity.
  - cbn [fst snd view_node]. rewrite Hp. reflexivity.
  - cbn [no_empty_map] in Hne. destruct ns as [|n1 tl]; [discriminate Hne|].
    cbn [fst snd view_node]. rewrite Hp. f_equal.
    cbn [norm_nodes map]. cbn [forallb] in Hne. apply andb_prop in Hne as [H1 H2].
    rewrite (Forall_inv IH true ol H1). f_equal.
    apply (map_view_norm (norm_node false ol) tl (Forall_inv_tail IH) H2).
    intro n. exists false, ol. reflexivity.
Qed.

Lemma view_norm_file a : no_empty_file a = true -> view_file (norm_file a) = view_file a.
Proof.
  destruct a as [ol ns]. cbn [no_empty_file norm_file view_file]. intro H.
  destruct ns as [|n tl]; [reflexivity|]. cbn [forallb] in H. apply andb_prop in H as [H1 H2].
  cbn [norm_nodes map]. rewrite (view_stable_all n true ol H1). f_equal.
  apply (map_view_norm (norm_node false ol) tl); [apply Forall_forall; intros; apply view_stable_all|exact H2|].
  intro x. exists false, ol. reflexivity.
Qed.

Theorem fmt_preserves_keys is_num a : wf_file is_num a = true -> no_empty_file a = true ->
  exists a', parse_file is_num (format_file a) = POk a' /\ view_file a' = view_file a.
Proof.
  intros Hwf Hne. exists (norm_file a). split; [apply parse_format_file; exact Hwf|apply view_norm_file; exact Hne].
Qed.

(* the guard is necessary: "steps.a: {}" is in F; the printer writes "steps.a" *)
Definition empty_map_witness : file :=
  File false [Key false [SUnq [115;116;101;112;115]; SUnq [97]] None (HMap true) []].

Lemma empty_map_refutes :
  wf_file (fun _ => false) empty_map_witness = true
  /\ format_file empty_map_witness = [115;116;101;112;115;46;97;10]
  /\ exists a', parse_file (fun _ => false) (format_file empty_map_witness) = POk a'
                /\ view_file a' <> view_file empty_map_witness.
Proof.
  split; [vm_compute; reflexivity|]. split; [reflexivity|].
  eexists. split; [vm_compute; reflexivity|]. discriminate.
Qed.

(* ================================================================== part 2 *)

Lemma base_app l1 l2 : base (l1 ++ l2) = base l1 ++ base l2.
Proof. induction l1 as [|[n|own] tl IH]; cbn [app base]; [reflexivity| |]; rewrite IH; reflexivity. Qed.

Lemma base_decls l : base (filter is_decl l) = base l.
Proof. induction l as [|[n|own] tl IH]; cbn [filter is_decl base]; [reflexivity|rewrite IH; reflexivity|exact IH]. Qed.

Lemma base_blocks l : base (filter (fun i => negb (is_decl i)) l) = [].
Proof. induction l as [|[n|own] tl IH]; cbn [filter is_decl negb base]; [reflexivity|exact IH|exact IH]. Qed.

Lemma boards_decls_then pre l rest :
  boards pre (filter is_decl l ++ rest) = boards (pre ++ base l) rest.
Proof.
  revert pre. induction l as [|[n|own] tl IH]; intro pre; cbn [filter is_decl app base boards].
  - rewrite app_nil_r. reflexivity.
  - rewrite IH. rewrite <- app_assoc. reflexivity.
  - apply IH.
Qed.

Lemma boards_blocks pre l : boards pre (filter (fun i => negb (is_decl i)) l) = map (app pre) (owns l).
Proof.
  induction l as [|[n|own] tl IH]; cbn [filter is_decl negb boards owns map]; [reflexivity|exact IH|rewrite IH; reflexivity].
Qed.

(* after the printer has moved the blocks, every board inherits ALL ordinary declarations of the map *)
Theorem meaning_after_move l : meaning (fmt_move l) = (base l, map (app (base l)) (owns l)).
Proof.
  unfold meaning, fmt_move. rewrite base_app, base_decls, base_blocks, app_nil_r.
  rewrite boards_decls_then. cbn [app]. rewrite boards_blocks. reflexivity.
Qed.

Lemma filter_all {A} (f : A -> bool) l : forallb f l = true -> filter f l = l.
Proof.
  induction l as [|x xs IH]; [reflexivity|]. cbn [forallb filter]. intro H. apply andb_prop in H as [H1 H2].
  rewrite H1, (IH H2). reflexivity.
Qed.
Lemma filter_none {A} (f : A -> bool) l : forallb (fun x => negb (f x)) l = true -> filter f l = [].
Proof.
  induction l as [|x xs IH]; [reflexivity|]. cbn [forallb filter]. intro H. apply andb_prop in H as [H1 H2].
  apply negb_t in H1. rewrite H1. exact (IH H2).
Qed.

(* when the blocks already are last, the printer leaves the map as it is *)
Theorem fmt_move_id l : boards_last l = true -> fmt_move l = l.
Proof.
  unfold fmt_move. induction l as [|[n|own] tl IH]; cbn [boards_last filter is_decl negb]; intro H.
  - reflexivity.
  - cbn [app]. rewrite (IH H). reflexivity.
  - rewrite (filter_none is_decl tl H). cbn [app]. rewrite (filter_all _ tl H). reflexivity.
Qed.

Corollary meaning_preserved_boards_last l : boards_last l = true -> meaning (fmt_move l) = meaning l.
Proof. intro H. rewrite (fmt_move_id l H). reflexivity. Qed.

(* x; scenarios: {s: {z}}; y    (x = 1, y = 2, z = 3) *)
Definition board_witness : list item := [D 1; B [3]; D 2].

Lemma board_move_refutes :
  meaning board_witness = ([1; 2], [[1; 3]]) /\ meaning (fmt_move board_witness) = ([1; 2], [[1; 2; 3]])
  /\ meaning (fmt_move board_witness) <> meaning board_witness /\ boards_last board_witness = false.
Proof. repeat split; try reflexivity. discriminate. Qed.
