(* Executable case checker for C35.  One case = one generated program: a board tree and objects with
   links.  The harness compiles it with the real compiler, exports it (d2lib.Compile with a stub layout)
   and runs the real resolveLinks/relink; per object it passes what was written and what came out. *)
From Coq Require Import List NArith Bool.
Import ListNotations.
Require Import V.Lib.RunCases.
Require Export V.C35.Model.
Open Scope N_scope.

Inductive linkrec :=
| L (scope : ida)                    (* IDA of the map the link was written in: root, (kind, name)*, object path
                                        (inside an imported file: relative to that file's root) *)
    (imp : option ida)               (* Some: the link is in an imported file; IDA of the importing field *)
    (inb : list (str * str))         (* the board holding this object (differs from the defining board for
                                        objects inherited by scenarios/steps) *)
    (link : ida)                     (* d2parser.ParseKey of the written link *)
    (stored : option (list str))     (* StringIDA of obj.Link.Value after compilation; None = dropped *)
    (stored_str : str)               (* obj.Link.Value *)
    (final : str).                   (* shape.Link after resolveLinks/relink *)

Inductive case := Case (ext : str) (out : path) (tree : board) (links : list linkrec).

Definition strs_eqb := list_eqb str_eqb.

Definition check_link (ext : str) (out : path) (tree : board) (m : list (str * path)) (r : linkrec) : list N :=
  match r with
  | L scope imp inb link stored stored_str final =>
      let model := match imp with
                   | None => stored_link tree (graph_ida inb) scope link
                   | Some i => stored_link_imported tree (graph_ida inb) i scope link
                   end in
      let cur := key_pairs s_root inb in
      flag (opt_eqb strs_eqb (option_map (map s_val) model) stored) 1
      ++ match stored with
         | None => flag (is_nil final) 1
         | Some vals =>
             flag (str_eqb (fmt_strs vals) stored_str) 1
             ++ flag (str_eqb (relink_one m cur stored_str) final) 1
             ++ match parse_canon vals with
                | None => [10]                                  (* not an absolute board path *)
                | Some ps =>
                    match board_file ext ps out tree, board_file ext inb out tree with
                    | Some ft, Some fc =>
                        flag (negb (pairs_eqb ps inb)) 11           (* a link to the board itself *)
                        ++ flag (str_eqb final (path_str (rel (removelast fc) ft))) 12
                        ++ flag (path_eqb (follow (removelast fc) (split_slash final)) ft) 13
                    | _, _ => [10]                               (* the board does not exist *)
                    end
                end
         end
  end.

Definition check_case (c : case) : list N :=
  match c with
  | Case ext out tree links =>
      let m := resolve_links ext s_root out tree in
      flag (nodup_strs (map fst m)) 2
      ++ flat_map (check_link ext out tree m) links
  end.
