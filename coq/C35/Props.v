(* C35 — Board links resolve to existing boards and are rewritten to the right files.  Statements only.

   scope_of P ++ o : IDA of the map a link is written in (board path P with the quoting of each name,
   then the objects o it is nested in); a written link = k underscores followed by a board path R.
   stored_link = compileLink + Format/ParseKey round trip + validateBoardLinks (hasBoard, self test
   against Graph.IDA);  resolve_links / relink_one / rel = d2cli resolveLinks / relink / filepath.Rel. *)
From Coq Require Import List NArith Bool Lia.
Import ListNotations.
Require Import V.C34.Model V.C35.Model V.C35.Proofs.
Open Scope N_scope.

(* compileLink: every relative link becomes the absolute path "P up k levels, then the rest",
   whatever objects it is nested in (all depths, all nestings, any rest). *)
Theorem C35_compile_link_resolves : forall P o k rest,
  kinds_ok P = true -> plain_names P = true -> forallb plain o = true ->
  (k <= length P)%nat -> not_us_head rest = true -> link_head_ok k rest = true ->
  compile_link (scope_of P ++ o) (repeat us_seg k ++ rest)
    = Some (scope_of (firstn (length P - k) P) ++ rest).
Proof. exact compile_link_resolves. Qed.

(* A link to a board path is stored iff that board exists and its path differs from what the code
   takes for the holder's own path; when stored it is the canonical absolute path of the board. *)
Theorem C35_link_absolute_exists_or_dropped : forall root gida P o k R,
  kinds_ok P = true -> plain_names P = true -> forallb plain o = true -> (k <= length P)%nat ->
  kinds_ok R = true -> plain_names R = true -> (1 <= k)%nat \/ R <> [] ->
  let T := map fst (firstn (length P - k) P ++ R) in
  match stored_link root gida (scope_of P ++ o) (repeat us_seg k ++ scope_tail R) with
  | Some l => map s_val l = canon T /\ (exists b, board_at root T = Some b) /\ canon T <> gida
  | None => board_at root T = None \/ canon T = gida
  end.
Proof. exact stored_link_characterised. Qed.

(* extendLinks: the absolute links of an imported file are rebased onto the importing board, and
   underscores left over at the file's root keep climbing in the importing program *)
Theorem C35_imported_absolute_link_rebased : forall I r Q,
  kinds_ok Q = true -> extend_link (scope_of I) (r :: scope_tail Q) = Some (scope_of (I ++ Q)).
Proof. exact imported_absolute_rebased. Qed.

Theorem C35_imported_link_rebased : forall I r j rest,
  (j <= length I)%nat -> not_us_head rest = true ->
  extend_link (scope_of I) (r :: repeat us_seg j ++ rest)
    = Some (scope_of (firstn (length I - j) I) ++ rest).
Proof. exact imported_link_rebased. Qed.

(* whatever is stored with a canonical shape names an existing board *)
Theorem C35_stored_canonical_link_exists : forall root gida r i ps,
  s_unq r = true -> spells i ps -> Forall (fun p => is_kind (fst p) = true) ps ->
  validate root gida (r :: i) = true -> exists b, board_at root ps = Some b.
Proof. exact link_exists_or_dropped. Qed.

(* Links to the holder's own board are dropped for the root and its direct children ... *)
Theorem C35_self_link_dropped : forall root ps l,
  (length ps <= 1)%nat -> map s_val l = canon ps -> validate root (graph_ida ps) l = false.
Proof. exact self_link_dropped. Qed.

(* ... because Graph.IDA is the board's path only at depth <= 1 ... *)
Theorem C35_graph_ida_is_path_only_shallow : forall ps, graph_ida ps = canon ps -> (length ps <= 1)%nat.
Proof. exact graph_ida_canon_depth. Qed.

(* ... and at depth 2 a self link is kept. *)
Theorem C35_self_link_refuted_nested :
  exists root ps l, length ps = 2%nat /\ map s_val l = canon ps
    /\ stored_link root (graph_ida ps)
         (scope_of [(s_layers, n_a, true); (s_layers, n_b, true)])
         [us_seg; useg s_layers; useg n_b] = Some l.
Proof. exact self_link_refuted_nested. Qed.

(* links that are not board paths survive hasBoard *)
Theorem C35_misshaped_link_kept :
  exists root l1 l2,
    stored_link root [s_root] [useg s_root] [useg s_layers; useg n_b; useg n_b] = Some l1
    /\ parse_canon (map s_val l1) = None
    /\ stored_link root [s_root] [useg s_root] [useg s_layers; useg n_a; useg s_root; useg s_layers; useg n_b] = Some l2
    /\ parse_canon (map s_val l2) = None.
Proof. exact misshaped_link_kept. Qed.

(* the stored value of a link IS the key resolveLinks files the board under (names without '.') *)
Theorem C35_link_value_is_key : forall ps,
  forallb (fun p => nodot (fst p) && nodot (snd p)) ps = true -> fmt_strs (canon ps) = key_pairs s_root ps.
Proof. exact fmt_canon_key. Qed.

(* relink: the link is rewritten to Rel(dir(current board's file), target board's file), and
   following that relative path from the current board's directory arrives at the target's file *)
Theorem C35_relink_targets_board_file : forall ext out root pc pt fc ft,
  let m := resolve_links ext s_root out root in
  NoDup (map fst m) ->
  board_file ext pc out root = Some fc -> board_file ext pt out root = Some ft ->
  relink_one m (key_pairs s_root pc) (key_pairs s_root pt) = path_str (rel (removelast fc) ft)
  /\ (clean ft = true -> follow (removelast fc) (rel (removelast fc) ft) = ft).
Proof. exact relink_targets_board_file. Qed.

Theorem C35_rel_follow : forall base targ, clean targ = true -> follow base (rel base targ) = targ.
Proof. exact rel_follow. Qed.

(* a board whose name needs quotes is never relinked *)
Theorem C35_relink_dotted_name_refuted :
  exists ext out root ps l ft,
    stored_link root [s_root] [useg s_root] [useg s_layers; Seg n_ab false] = Some l
    /\ map s_val l = canon ps
    /\ board_file ext ps out root = Some ft
    /\ relink_one (resolve_links ext s_root out root) s_root (fmt_strs (map s_val l)) = fmt_strs (map s_val l)
    /\ fmt_strs (map s_val l) <> path_str (rel (removelast [[119]; [111; 117; 116]; s_index ++ ext]) ft).
Proof. exact relink_dotted_name_refuted. Qed.

(* non-vacuity: a link `_.layers.b` written inside object x.y of board root.layers.a.steps."1.5" *)
Example C35_guards_satisfiable :
  let P := [(s_layers, n_a, true); (s_steps, [49; 46; 53], false)] in
  let o := [useg [120]; useg [121]] in
  let R := [(s_layers, n_b, true)] in
  kinds_ok P = true /\ plain_names P = true /\ forallb plain o = true /\ (1 <= length P)%nat
  /\ kinds_ok R = true /\ plain_names R = true
  /\ NoDup (map fst (resolve_links [46; 115; 118; 103] s_root [[119]; [111; 117; 116]] x_tree)).
Proof. repeat split; try reflexivity; try (cbn; lia). apply nodup_strs_NoDup. reflexivity. Qed.

Print Assumptions C35_compile_link_resolves.
Print Assumptions C35_link_absolute_exists_or_dropped.
Print Assumptions C35_stored_canonical_link_exists.
Print Assumptions C35_imported_absolute_link_rebased.
Print Assumptions C35_imported_link_rebased.
Print Assumptions C35_self_link_dropped.
Print Assumptions C35_graph_ida_is_path_only_shallow.
Print Assumptions C35_self_link_refuted_nested.
Print Assumptions C35_misshaped_link_kept.
Print Assumptions C35_link_value_is_key.
Print Assumptions C35_relink_targets_board_file.
Print Assumptions C35_rel_follow.
Print Assumptions C35_relink_dotted_name_refuted.
