(* C35 — proofs about board links. *)
From Coq Require Import List NArith Bool Lia Arith.
Import ListNotations.
Require Import V.Lib.RunCases V.C34.Model V.C34.Proofs V.C35.Model.
Open Scope N_scope.

(* ---------- scopes ---------- *)

(* a board path with the quoting of each name as written: (kind, name, name written unquoted) *)
Definition bpath := list (str * str * bool).
Definition pairs_of_bpath (P : bpath) : list (str * str) := map fst P.

Definition scope_tail (P : bpath) : ida :=
  flat_map (fun p => [useg (fst (fst p)); Seg (snd (fst p)) (snd p)]) P.
Definition scope_of (P : bpath) : ida := useg s_root :: scope_tail P.

(* a segment that compileLink's scan does not mistake for a board keyword or for root *)
Definition plain (s : seg) : bool :=
  negb (s_unq s && is_kind_fold (s_val s)) && negb (str_eqb (s_val s) s_root && s_unq s).

Definition plain_names (P : bpath) : bool := forallb (fun p => plain (Seg (snd (fst p)) (snd p))) P.
Definition kinds_ok (P : bpath) : bool := forallb (fun p => is_kind (fst (fst p))) P.

Lemma is_kind_fold_of_kind k : is_kind k = true -> is_kind_fold k = true.
Proof.
  unfold is_kind. intro H.
  destruct (str_eqb k s_layers) eqn:E1; [apply str_eqb_eq in E1; subst; reflexivity|].
  destruct (str_eqb k s_scenarios) eqn:E2; [apply str_eqb_eq in E2; subst; reflexivity|].
  destruct (str_eqb k s_steps) eqn:E3; [apply str_eqb_eq in E3; subst; reflexivity|discriminate].
Qed.

Lemma scope_tail_app P Q : scope_tail (P ++ Q) = scope_tail P ++ scope_tail Q.
Proof. apply flat_map_app'. Qed.

Lemma scope_tail_length P : length (scope_tail P) = (2 * length P)%nat.
Proof. induction P as [|p P IH]; cbn [scope_tail flat_map app length] in *; [reflexivity|]. fold (scope_tail P). lia. Qed.

(* ---------- chop ---------- *)

Lemma nth_error_app_mid {A} (pre : list A) x post : nth_error (pre ++ x :: post) (length pre) = Some x.
Proof. induction pre; cbn; auto. Qed.

Lemma chop_at_board pre kw nm o :
  s_unq kw = true -> is_kind_fold (s_val kw) = true ->
  forallb plain (nm :: o) = true ->
  forall m, (m <= length o)%nat ->
    chop_at (pre ++ kw :: nm :: o) (length pre + 1 + m) = pre ++ [kw; nm].
Proof.
  intros Hu Hk Hp. induction m as [|m IH]; intro Hm.
  - replace (length pre + 1 + 0)%nat with (S (length pre)) by lia. cbn [chop_at].
    rewrite nth_error_app_mid, Hu, Hk. cbn [andb].
    replace (S (S (length pre))) with (length (pre ++ [kw; nm])) by (rewrite app_length; cbn; lia).
    change (pre ++ kw :: nm :: o) with (pre ++ [kw; nm] ++ o). rewrite app_assoc.
    rewrite firstn_app, firstn_all, Nat.sub_diag. cbn. now rewrite app_nil_r.
  - replace (length pre + 1 + S m)%nat with (S (length pre + 1 + m)) by lia. cbn [chop_at].
    assert (E : exists s, nth_error (pre ++ kw :: nm :: o) (length pre + 1 + m) = Some s /\ plain s = true).
    { replace (length pre + 1 + m)%nat with (length (pre ++ [kw]) + m)%nat by (rewrite app_length; cbn; lia).
      change (pre ++ kw :: nm :: o) with (pre ++ [kw] ++ nm :: o). rewrite app_assoc.
      rewrite nth_error_app2 by lia. replace (length (pre ++ [kw]) + m - length (pre ++ [kw]))%nat with m by lia.
      destruct (nth_error (nm :: o) m) as [s|] eqn:En.
      - exists s. split; [reflexivity|]. rewrite forallb_forall in Hp. apply Hp. eapply nth_error_In; eauto.
      - apply nth_error_None in En. cbn in En. lia. }
    destruct E as [s [-> Hs]]. unfold plain in Hs. apply andb_prop in Hs as [H1 H2].
    apply negb_true_iff in H1, H2. rewrite H1, H2. apply IH. lia.
Qed.

Lemma chop_at_root o : forallb plain o = true ->
  forall m, (1 <= m <= length o)%nat -> chop_at (useg s_root :: o) m = [useg s_root].
Proof.
  intro Hp. induction m as [|m IH]; intro Hm; [lia|]. cbn [chop_at].
  destruct m as [|m'].
  - cbn. reflexivity.
  - assert (E : exists s, nth_error (useg s_root :: o) (S m') = Some s /\ plain s = true).
    { cbn [nth_error]. destruct (nth_error o m') as [s|] eqn:En.
      - exists s. split; [reflexivity|]. rewrite forallb_forall in Hp. apply Hp. eapply nth_error_In; eauto.
      - apply nth_error_None in En. lia. }
    destruct E as [s [-> Hs]]. unfold plain in Hs. apply andb_prop in Hs as [H1 H2].
    apply negb_true_iff in H1, H2. rewrite H1, H2. apply IH. lia.
Qed.

(* the scan finds the innermost board of the scope, whatever objects the link is nested in *)
Lemma chop_scope P o :
  kinds_ok P = true -> plain_names P = true -> forallb plain o = true ->
  chop (scope_of P ++ o) = scope_of P.
Proof.
  intros Hk Hn Ho. unfold chop.
  destruct P as [|p P] using rev_ind.
  - cbn [scope_of scope_tail flat_map app]. destruct o as [|x o].
    + reflexivity.
    + cbn [length]. replace (S (S (length o)) - 1)%nat with (S (length o)) by lia.
      apply chop_at_root; [exact Ho | cbn; lia].
  - clear IHP. destruct p as [[k n] q].
    unfold kinds_ok, plain_names in Hk, Hn. rewrite forallb_app in Hk, Hn.
    apply andb_prop in Hk as [_ Hk]. apply andb_prop in Hn as [_ Hn]. cbn in Hk, Hn.
    rewrite andb_true_r in Hk, Hn.
    unfold scope_of. rewrite scope_tail_app. cbn [scope_tail flat_map app fst snd].
    assert (E : useg s_root :: (scope_tail P ++ [useg k; Seg n q]) ++ o
                = (useg s_root :: scope_tail P) ++ useg k :: Seg n q :: o).
    { cbn [app]. now rewrite <- app_assoc. }
    rewrite E.
    replace (length ((useg s_root :: scope_tail P) ++ useg k :: Seg n q :: o) - 1)%nat
      with (length (useg s_root :: scope_tail P) + 1 + length o)%nat
      by (rewrite app_length; cbn [length]; lia).
    rewrite (chop_at_board (useg s_root :: scope_tail P) (useg k) (Seg n q) o); auto.
    + now apply is_kind_fold_of_kind.
    + cbn [forallb]. now rewrite Hn, Ho.
Qed.

(* ---------- underscores ---------- *)

Definition us_seg : seg := useg s_us.

Lemma scope_of_snoc P k n q : scope_of (P ++ [(k, n, q)]) = scope_of P ++ [useg k; Seg n q].
Proof. unfold scope_of. rewrite scope_tail_app. reflexivity. Qed.

Lemma removelast2_snoc {A} (l : list A) x y : removelast (removelast (l ++ [x; y])) = l.
Proof.
  change (l ++ [x; y]) with (l ++ [x] ++ [y]). rewrite app_assoc, removelast_last. apply removelast_last.
Qed.

Lemma scope_of_length P : length (scope_of P) = S (2 * length P).
Proof. unfold scope_of. cbn [length]. now rewrite scope_tail_length. Qed.

Definition not_us_head (rest : ida) : bool := match rest with [] => true | s :: _ => negb (is_us s) end.

Lemma pop_us_not_us sc rest : not_us_head rest = true -> pop_us sc rest = (sc, rest).
Proof. destruct rest as [|s rest]; cbn; [reflexivity|]. intro H. apply negb_true_iff in H. now rewrite H. Qed.

(* k underscores climb k boards *)
Lemma pop_us_climb : forall k P rest, (k <= length P)%nat -> not_us_head rest = true ->
  pop_us (scope_of P) (repeat us_seg k ++ rest) = (scope_of (firstn (length P - k) P), rest).
Proof.
  induction k as [|k IH]; intros P rest Hk Hr.
  - cbn [repeat app]. rewrite Nat.sub_0_r, firstn_all. now apply pop_us_not_us.
  - destruct P as [|p P] using rev_ind; [cbn in Hk; lia|]. clear IHP.
    destruct p as [[kd n] q]. rewrite app_length in Hk |- *. cbn [length] in Hk |- *.
    cbn [repeat app pop_us]. change (is_us us_seg) with true. cbv iota.
    rewrite scope_of_length, app_length. cbn [length].
    replace (Nat.ltb (S (2 * (length P + 1))) 2) with false by (symmetry; apply Nat.ltb_ge; lia).
    rewrite scope_of_snoc, removelast2_snoc. rewrite IH by (auto; lia).
    replace (length P + 1 - S k)%nat with (length P - k)%nat by lia.
    rewrite firstn_app. replace (length P - k - length P)%nat with 0%nat by lia.
    cbn [firstn]. now rewrite app_nil_r.
Qed.

(* ---------- compileLink: relative links become absolute ---------- *)

Definition link_head_ok (k : nat) (rest : ida) : bool :=
  match k with
  | S _ => true
  | O => match rest with s :: _ => s_unq s && is_kind_fold (s_val s) | [] => false end
  end.

Lemma compile_link_eq sc l0 lr :
  sc <> [] -> s_unq l0 = true -> (is_kind_fold (s_val l0) || str_eqb (s_val l0) s_us) = true ->
  compile_link sc (l0 :: lr) =
    let '(a, b) := pop_us (chop sc) (l0 :: lr) in
    Some (match a with [] => [useg s_root] | _ => a end ++ b).
Proof.
  intros Hsc H1 H2. destruct sc as [|s0 sc]; [contradiction|].
  unfold compile_link. rewrite H1, H2. reflexivity.
Qed.

Lemma compile_link_resolves P o k rest :
  kinds_ok P = true -> plain_names P = true -> forallb plain o = true ->
  (k <= length P)%nat -> not_us_head rest = true -> link_head_ok k rest = true ->
  compile_link (scope_of P ++ o) (repeat us_seg k ++ rest)
    = Some (scope_of (firstn (length P - k) P) ++ rest).
Proof.
  intros Hk Hn Ho Hle Hr Hh.
  destruct (repeat us_seg k ++ rest) as [|l0 lrest] eqn:El.
  { destruct k; cbn in El; [subst rest; discriminate | discriminate]. }
  assert (Hl0 : s_unq l0 = true /\ (is_kind_fold (s_val l0) || str_eqb (s_val l0) s_us) = true).
  { destruct k as [|k].
    - cbn in El. subst rest. cbn in Hh. apply andb_prop in Hh as [H1 H2]. now rewrite H1, H2.
    - cbn in El. injection El as <- _. split; reflexivity. }
  destruct Hl0 as [H1 H2].
  rewrite compile_link_eq; [| discriminate | exact H1 | exact H2].
  rewrite <- El. rewrite chop_scope by assumption. rewrite pop_us_climb by assumption.
  reflexivity.
Qed.

(* ---------- hasBoard on canonical paths ---------- *)

Lemma find_board_name n l c : find_board n l = Some c -> bname c = n /\ In c l.
Proof.
  unfold find_board. intro H. apply find_some in H as [Hin H]. apply str_eqb_eq in H. now split.
Qed.

Lemma is_kind_not_root k : is_kind k = true -> str_eqb k s_root = false.
Proof.
  unfold is_kind. intro H.
  destruct (str_eqb k s_layers) eqn:E1; [apply str_eqb_eq in E1; subst; reflexivity|].
  destruct (str_eqb k s_scenarios) eqn:E2; [apply str_eqb_eq in E2; subst; reflexivity|].
  destruct (str_eqb k s_steps) eqn:E3; [apply str_eqb_eq in E3; subst; reflexivity|discriminate].
Qed.

(* an ida whose values spell kind, name, kind, name ... for the pairs ps *)
Fixpoint spells (i : ida) (ps : list (str * str)) : Prop :=
  match ps, i with
  | [], [] => True
  | (k, n) :: ps', sk :: sn :: i' => s_val sk = k /\ s_val sn = n /\ spells i' ps'
  | _, _ => False
  end.

Lemma has_board_f_pairs : forall ps i b fuel, spells i ps ->
  Forall (fun p => is_kind (fst p) = true) ps -> (length i < fuel)%nat ->
  has_board_f fuel b i = match board_at b ps with Some _ => true | None => false end.
Proof.
  induction ps as [|[k n] ps IH]; intros i b fuel Hs Hk Hf.
  - destruct i; [|contradiction]. destruct fuel; [cbn in Hf; lia|]. reflexivity.
  - destruct i as [|sk [|sn i]]; try contradiction. destruct Hs as [<- [<- Hs]].
    inversion Hk as [|? ? Hk1 Hk2]; subst. cbn [fst] in Hk1.
    destruct fuel as [|fuel]; [cbn in Hf; lia|]. cbn [has_board_f board_at].
    rewrite (is_kind_not_root _ Hk1). cbn [andb].
    destruct (kind_list (s_val sk) b) as [l|]; [|reflexivity].
    destruct (find_board (s_val sn) l) as [c|]; [|reflexivity].
    apply IH; auto. cbn in Hf. lia.
Qed.

Lemma has_board_f_root f b r i :
  str_eqb (s_val r) s_root && s_unq r = true -> has_board_f (S f) b (r :: i) = has_board_f f b i.
Proof. intro H. cbn [has_board_f]. now rewrite H. Qed.

Lemma has_board_canonical root r i ps :
  str_eqb (s_val r) s_root = true -> s_unq r = true -> spells i ps ->
  Forall (fun p => is_kind (fst p) = true) ps ->
  has_board root (r :: i) = match board_at root ps with Some _ => true | None => false end.
Proof.
  intros Hr Hu Hs Hk. unfold has_board. rewrite has_board_f_root by now rewrite Hr, Hu.
  apply has_board_f_pairs; auto.
Qed.

(* ---------- self links and Graph.IDA ---------- *)

Lemma canon_length ps : length (canon ps) = S (2 * length ps).
Proof.
  unfold canon. cbn [length]. f_equal. induction ps as [|p ps IH]; cbn [flat_map app length]; [reflexivity|]. lia.
Qed.

Lemma graph_ida_length ps : ps <> [] -> length (graph_ida ps) = (2 + length ps)%nat.
Proof.
  intro H. unfold graph_ida. destruct (rev ps) as [|[k n] t] eqn:E.
  - apply (f_equal (@rev _)) in E. rewrite rev_involutive in E. contradiction.
  - cbn [length]. now rewrite map_length.
Qed.

(* Graph.IDA is the canonical path of a board exactly for the root and its direct children *)
Lemma graph_ida_canon_depth ps : graph_ida ps = canon ps -> (length ps <= 1)%nat.
Proof.
  intro E. destruct ps as [|p ps]; [cbn; lia|].
  apply (f_equal (@length _)) in E. rewrite canon_length, graph_ida_length in E by discriminate.
  cbn [length] in *. lia.
Qed.

Lemma graph_ida_canon_shallow ps : (length ps <= 1)%nat -> graph_ida ps = canon ps.
Proof.
  destruct ps as [|[k n] [|p ps]]; cbn [length]; intro H; [reflexivity | reflexivity | lia].
Qed.

Lemma strs_eqb_refl l : list_eqb str_eqb l l = true.
Proof. apply list_eqb_eq; [exact str_eqb_eq | reflexivity]. Qed.

Lemma self_link_dropped root ps l :
  (length ps <= 1)%nat -> map s_val l = canon ps -> validate root (graph_ida ps) l = false.
Proof.
  intros Hd Hl. unfold validate. destruct l as [|l0 l]; [reflexivity|].
  rewrite Hl, graph_ida_canon_shallow by exact Hd. rewrite strs_eqb_refl. cbn [negb]. apply andb_false_r.
Qed.

(* ---------- validate keeps only links to existing boards (canonical shape) ---------- *)

Lemma link_exists_or_dropped root gida r i ps :
  s_unq r = true -> spells i ps -> Forall (fun p => is_kind (fst p) = true) ps ->
  validate root gida (r :: i) = true -> exists b, board_at root ps = Some b.
Proof.
  intros Hu Hs Hk Hv. unfold validate in Hv. apply andb_prop in Hv as [Hv _]. apply andb_prop in Hv as [Hr Hb].
  rewrite (has_board_canonical root r i ps Hr Hu Hs Hk) in Hb.
  destruct (board_at root ps) as [b|]; [now exists b | discriminate].
Qed.

(* ---------- filepath.Rel ---------- *)

Definition ordinary (s : str) : bool :=
  match s with [] => false | _ => negb (str_eqb s s_dot) && negb (str_eqb s s_dotdot) end.
Definition clean (p : path) : bool := forallb ordinary p.

Lemma push_ordinary p s : ordinary s = true -> push p s = p ++ [s].
Proof.
  unfold ordinary, push. destruct s as [|c s]; [discriminate|]. intro H. apply andb_prop in H as [H1 H2].
  apply negb_true_iff in H1, H2. now rewrite H1, H2.
Qed.

Lemma follow_clean b : forall a, clean b = true -> follow a b = a ++ b.
Proof.
  unfold follow. induction b as [|s b IH]; intros a Hb; cbn [fold_left].
  - now rewrite app_nil_r.
  - cbn in Hb. apply andb_prop in Hb as [Hs Hb]. rewrite push_ordinary by exact Hs.
    rewrite IH by exact Hb. now rewrite <- app_assoc.
Qed.

Lemma follow_app a r1 r2 : follow a (r1 ++ r2) = follow (follow a r1) r2.
Proof. unfold follow. apply fold_left_app. Qed.

Lemma follow_dotdots : forall a c, follow (c ++ a) (map (fun _ => s_dotdot) a) = c.
Proof.
  intros a. induction a as [|x a IH] using rev_ind; intro c; cbn.
  - now rewrite app_nil_r.
  - rewrite map_app. cbn [map].
    assert (E : map (fun _ : str => s_dotdot) a ++ [s_dotdot] = s_dotdot :: map (fun _ : str => s_dotdot) a).
    { clear. induction a; cbn; [reflexivity|]. now rewrite IHa. }
    rewrite E. unfold follow. cbn [fold_left]. change (push (c ++ a ++ [x]) s_dotdot) with (removelast (c ++ a ++ [x])).
    rewrite app_assoc, removelast_last. apply IH.
Qed.

Lemma strip_common_spec : forall a b, exists c a' b', a = c ++ a' /\ b = c ++ b' /\ strip_common a b = (a', b').
Proof.
  induction a as [|x a IH]; intro b.
  - exists [], [], b. repeat split.
  - destruct b as [|y b].
    + exists [], (x :: a), []. repeat split.
    + cbn [strip_common]. destruct (str_eqb x y) eqn:E.
      * apply str_eqb_eq in E. subst y. destruct (IH b) as [c [a' [b' [-> [-> Es]]]]].
        exists (x :: c), a', b'. repeat split. exact Es.
      * exists [], (x :: a), (y :: b). repeat split.
Qed.

(* following the relative path computed by Rel from the base directory leads to the target *)
Lemma rel_follow base targ : clean targ = true -> follow base (rel base targ) = targ.
Proof.
  intro Ht. unfold rel. destruct (strip_common_spec base targ) as [c [a [b [-> [-> Es]]]]]. rewrite Es.
  assert (Hb : clean b = true).
  { unfold clean in *. rewrite forallb_app in Ht. now apply andb_prop in Ht as [_ Ht]. }
  destruct (map (fun _ : str => s_dotdot) a ++ b) as [|r0 r] eqn:Er.
  - apply app_eq_nil in Er as [Ea Eb]. subst b. destruct a; [|discriminate]. now rewrite !app_nil_r.
  - rewrite <- Er, follow_app, follow_dotdots. now apply follow_clean.
Qed.

(* ---------- resolveLinks ---------- *)

Lemma kind_list_cases k b l : kind_list k b = Some l ->
  (k = s_layers /\ l = blayers b) \/ (k = s_scenarios /\ l = bscenarios b) \/ (k = s_steps /\ l = bsteps b).
Proof.
  unfold kind_list. destruct (str_eqb k s_layers) eqn:E1.
  - apply str_eqb_eq in E1. intro H. injection H as <-. now left.
  - destruct (str_eqb k s_scenarios) eqn:E2.
    + apply str_eqb_eq in E2. intro H. injection H as <-. right. now left.
    + destruct (str_eqb k s_steps) eqn:E3; [|discriminate].
      apply str_eqb_eq in E3. intro H. injection H as <-. right. now right.
Qed.

Lemma resolve_links_has : forall ps ext cur out b f,
  board_file ext ps out b = Some f -> In (key_pairs cur ps, f) (resolve_links ext cur out b).
Proof.
  induction ps as [|[k n] ps IH]; intros ext cur out b f H; destruct b as [name fo ls ss ts].
  - cbn in H. injection H as <-. cbn [resolve_links key_pairs]. now left.
  - cbn [board_file] in H. cbn [key_pairs resolve_links]. right.
    destruct (kind_list k (Board name fo ls ss ts)) as [l|] eqn:Ek; [|discriminate].
    destruct (find_board n l) as [c|] eqn:Ef; [|discriminate].
    apply find_board_name in Ef as [Hn Hin]. subst n.
    destruct (kind_list_cases _ _ _ Ek) as [[-> ->]|[[-> ->]|[-> ->]]]; cbn [blayers bscenarios bsteps] in Hin.
    + apply in_or_app. left. apply in_flat_map. exists c. split; [exact Hin|]. now apply IH.
    + apply in_or_app. right. apply in_or_app. left. apply in_flat_map. exists c. split; [exact Hin|]. now apply IH.
    + apply in_or_app. right. apply in_or_app. right. apply in_flat_map. exists c. split; [exact Hin|]. now apply IH.
Qed.

Lemma nodup_strs_NoDup l : nodup_strs l = true -> NoDup l.
Proof.
  induction l as [|x l IH]; cbn; intro H; [constructor|].
  apply andb_prop in H as [H1 H2]. constructor; [|now apply IH].
  intro Hin. apply negb_true_iff in H1. rewrite <- not_true_iff_false in H1. apply H1.
  apply existsb_exists. exists x. split; [exact Hin | apply str_eqb_refl].
Qed.

Lemma find_unique (m : list (str * path)) k v :
  NoDup (map fst m) -> In (k, v) m -> find (fun e => str_eqb (fst e) k) m = Some (k, v).
Proof.
  induction m as [|[k' v'] m IH]; intros Hn Hin; [contradiction|]. cbn [find fst].
  cbn in Hn. inversion Hn as [|? ? Hx Hn']; subst. destruct Hin as [E|Hin].
  - injection E as -> ->. now rewrite str_eqb_refl.
  - destruct (str_eqb k' k) eqn:E.
    + apply str_eqb_eq in E. subst k'. exfalso. apply Hx. change k with (fst (k, v)). now apply in_map.
    + now apply IH.
Qed.

Lemma lookup_unique m k v : NoDup (map fst m) -> In (k, v) m -> lookup m k = Some v.
Proof.
  intros Hn Hin. unfold lookup. rewrite (find_unique (rev m) k v).
  - reflexivity.
  - rewrite map_rev. now apply NoDup_rev.
  - now apply in_rev in Hin.
Qed.

(* relink rewrites the link (= the key of the target board) to Rel(dir(current file), target file),
   and that relative path leads from the current board's directory to the target board's file *)
Lemma relink_targets_board_file ext out root pc pt fc ft :
  let m := resolve_links ext s_root out root in
  NoDup (map fst m) ->
  board_file ext pc out root = Some fc -> board_file ext pt out root = Some ft ->
  relink_one m (key_pairs s_root pc) (key_pairs s_root pt) = path_str (rel (removelast fc) ft)
  /\ (clean ft = true -> follow (removelast fc) (rel (removelast fc) ft) = ft).
Proof.
  intros m Hn Hc Ht. split.
  - unfold relink_one.
    rewrite (lookup_unique m _ ft Hn (resolve_links_has _ _ _ _ _ _ Ht)).
    now rewrite (lookup_unique m _ fc Hn (resolve_links_has _ _ _ _ _ _ Hc)).
  - intro Hcl. now apply rel_follow.
Qed.

(* ---------- the stored link: absolute, existing, or dropped ---------- *)

Lemma lower_kind k : is_kind k = true -> map lower k = k.
Proof.
  unfold is_kind. intro H.
  destruct (str_eqb k s_layers) eqn:E1; [apply str_eqb_eq in E1; subst; reflexivity|].
  destruct (str_eqb k s_scenarios) eqn:E2; [apply str_eqb_eq in E2; subst; reflexivity|].
  destruct (str_eqb k s_steps) eqn:E3; [apply str_eqb_eq in E3; subst; reflexivity|discriminate].
Qed.

Lemma roundtrip_app a b : roundtrip (a ++ b) = roundtrip a ++ roundtrip b.
Proof. apply map_app. Qed.

Lemma roundtrip_scope_tail_spells Q :
  kinds_ok Q = true -> plain_names Q = true -> spells (roundtrip (scope_tail Q)) (map fst Q).
Proof.
  induction Q as [|[[k n] q] Q IH]; intros Hk Hn; [exact I|].
  cbn in Hk, Hn. apply andb_prop in Hk as [Hk1 Hk2]. apply andb_prop in Hn as [Hn1 Hn2].
  cbn [scope_tail flat_map app fst snd map roundtrip]. fold (scope_tail Q). fold (roundtrip (scope_tail Q)).
  cbn [s_val s_unq useg]. repeat split.
  - rewrite (is_kind_fold_of_kind _ Hk1). cbn [andb]. now apply lower_kind.
  - unfold plain in Hn1. cbn [s_val s_unq] in Hn1. apply andb_prop in Hn1 as [H1 _].
    apply negb_true_iff in H1. now rewrite H1.
  - now apply IH.
Qed.

Lemma spells_vals : forall ps i, spells i ps -> map s_val i = flat_map (fun p => [fst p; snd p]) ps.
Proof.
  induction ps as [|[k n] ps IH]; intros i H.
  - destruct i; [reflexivity|contradiction].
  - destruct i as [|sk [|sn i]]; try contradiction. destruct H as [<- [<- H]].
    cbn [map flat_map app fst snd]. now rewrite (IH i H).
Qed.

Lemma kinds_ok_Forall Q : kinds_ok Q = true -> Forall (fun p => is_kind (fst p) = true) (map fst Q).
Proof.
  unfold kinds_ok. rewrite forallb_forall. intro H. apply Forall_forall. intros p Hp.
  apply in_map_iff in Hp as [x [<- Hx]]. now apply H.
Qed.

Lemma kinds_ok_app A B : kinds_ok (A ++ B) = kinds_ok A && kinds_ok B.
Proof. apply forallb_app. Qed.
Lemma plain_names_app A B : plain_names (A ++ B) = plain_names A && plain_names B.
Proof. apply forallb_app. Qed.

Lemma forallb_firstn {A} (f : A -> bool) n l : forallb f l = true -> forallb f (firstn n l) = true.
Proof.
  intro H. rewrite <- (firstn_skipn n l) in H. rewrite forallb_app in H. now apply andb_prop in H as [H _].
Qed.

Lemma strs_eqb_eq a b : list_eqb str_eqb a b = true <-> a = b.
Proof. apply list_eqb_eq. exact str_eqb_eq. Qed.

(* A link written with k underscores and then the board path R, inside any objects o of the board P:
   it is stored iff the board (P up k levels, then R) exists and its canonical path differs from
   [gida] (what the code takes for the path of the board holding the object); when stored it is the
   canonical absolute path of that board. *)
Lemma stored_link_characterised root gida P o k R :
  kinds_ok P = true -> plain_names P = true -> forallb plain o = true -> (k <= length P)%nat ->
  kinds_ok R = true -> plain_names R = true -> (1 <= k)%nat \/ R <> [] ->
  let T := map fst (firstn (length P - k) P ++ R) in
  match stored_link root gida (scope_of P ++ o) (repeat us_seg k ++ scope_tail R) with
  | Some l => map s_val l = canon T /\ (exists b, board_at root T = Some b) /\ canon T <> gida
  | None => board_at root T = None \/ canon T = gida
  end.
Proof.
  intros HkP HnP Ho Hle HkR HnR Hne T.
  assert (Hnu : not_us_head (scope_tail R) = true).
  { destruct R as [|[[kd n] q] R]; [reflexivity|]. cbn. cbn in HkR. apply andb_prop in HkR as [H _].
    unfold is_us. cbn [s_val useg]. rewrite andb_true_r. apply negb_true_iff.
    destruct (str_eqb kd s_us) eqn:E; [|reflexivity]. apply str_eqb_eq in E. subst kd. discriminate. }
  assert (Hh : link_head_ok k (scope_tail R) = true).
  { destruct k as [|k]; [|reflexivity]. destruct Hne as [H|H]; [lia|].
    destruct R as [|[[kd n] q] R]; [contradiction|]. cbn. cbn in HkR. apply andb_prop in HkR as [H1 _].
    now apply is_kind_fold_of_kind. }
  unfold stored_link. rewrite compile_link_resolves by assumption.
  set (P' := firstn (length P - k) P).
  assert (El : scope_of P' ++ scope_tail R = useg s_root :: scope_tail (P' ++ R)).
  { unfold scope_of. now rewrite scope_tail_app. }
  rewrite El.
  change (roundtrip (useg s_root :: scope_tail (P' ++ R)))
    with (useg s_root :: roundtrip (scope_tail (P' ++ R))).
  set (r := useg s_root).
  assert (Er : r = useg s_root) by reflexivity.
  assert (HkQ : kinds_ok (P' ++ R) = true).
  { rewrite kinds_ok_app, HkR, andb_true_r. now apply forallb_firstn. }
  assert (HnQ : plain_names (P' ++ R) = true).
  { rewrite plain_names_app, HnR, andb_true_r. now apply forallb_firstn. }
  pose proof (roundtrip_scope_tail_spells _ HkQ HnQ) as Hsp.
  assert (Hvals : map s_val (r :: roundtrip (scope_tail (P' ++ R))) = canon T).
  { rewrite Er. cbn [map s_val useg]. unfold canon, T. f_equal. now apply spells_vals. }
  unfold validate. change (str_eqb (s_val r) s_root) with true. cbn [andb].
  rewrite (has_board_canonical root r _ (map fst (P' ++ R))); [| now rewrite Er | now rewrite Er | exact Hsp | now apply kinds_ok_Forall].
  change (map fst (P' ++ R)) with T. rewrite Hvals.
  destruct (board_at root T) as [b|] eqn:Eb.
  - destruct (list_eqb str_eqb (canon T) gida) eqn:Eg; cbn [andb negb]; cbv iota.
    + right. now apply strs_eqb_eq.
    + repeat split; [exact Hvals | now exists b |]. intro E. apply strs_eqb_eq in E. congruence.
  - cbn [andb]. cbv iota. now left.
Qed.

(* ---------- extendLinks: links of an imported file are rebased on the importing field ---------- *)

Lemma extend_pop_not_us imp rest : not_us_head rest = true -> extend_pop imp rest = (imp, rest).
Proof. destruct rest as [|s rest]; cbn; [reflexivity|]. intro H. apply negb_true_iff in H. now rewrite H. Qed.

Lemma extend_pop_climb : forall j I rest, (j <= length I)%nat -> not_us_head rest = true ->
  extend_pop (scope_of I) (repeat us_seg j ++ rest) = (scope_of (firstn (length I - j) I), rest).
Proof.
  induction j as [|j IH]; intros I rest Hj Hr.
  - cbn [repeat app]. rewrite Nat.sub_0_r, firstn_all. now apply extend_pop_not_us.
  - destruct I as [|p I] using rev_ind; [cbn in Hj; lia|]. clear IHI.
    destruct p as [[kd n] q]. rewrite app_length in Hj |- *. cbn [length] in Hj |- *.
    cbn [repeat app extend_pop]. change (is_us us_seg) with true. cbv iota.
    rewrite scope_of_length, app_length. cbn [length].
    replace (Nat.ltb (S (2 * (length I + 1))) 2) with false by (symmetry; apply Nat.ltb_ge; lia).
    rewrite scope_of_snoc, removelast2_snoc. rewrite IH by (auto; lia).
    replace (length I + 1 - S j)%nat with (length I - j)%nat by lia.
    rewrite firstn_app. replace (length I - j - length I)%nat with 0%nat by lia.
    cbn [firstn]. now rewrite app_nil_r.
Qed.

(* A link stored in an imported file as  root, j left-over underscores, rest  becomes, once the file
   is imported by the field at board path I:  I up j levels, then rest.  In particular (j = 0) the
   file's absolute path root.Q becomes root.I.Q. *)
Lemma imported_link_rebased I r j rest :
  (j <= length I)%nat -> not_us_head rest = true ->
  extend_link (scope_of I) (r :: repeat us_seg j ++ rest)
    = Some (scope_of (firstn (length I - j) I) ++ rest).
Proof.
  intros Hj Hr. unfold extend_link. now rewrite extend_pop_climb.
Qed.

Lemma imported_absolute_rebased I r Q :
  kinds_ok Q = true ->
  extend_link (scope_of I) (r :: scope_tail Q) = Some (scope_of (I ++ Q)).
Proof.
  intro HkQ.
  assert (Hnu : not_us_head (scope_tail Q) = true).
  { destruct Q as [|[[kd n] q] Q]; [reflexivity|]. cbn. cbn in HkQ. apply andb_prop in HkQ as [H _].
    unfold is_us. cbn [s_val useg]. rewrite andb_true_r. apply negb_true_iff.
    destruct (str_eqb kd s_us) eqn:E; [|reflexivity]. apply str_eqb_eq in E. subst kd. discriminate. }
  pose proof (imported_link_rebased I r 0 (scope_tail Q) ltac:(lia) Hnu) as H.
  cbn [repeat app] in H. rewrite H, Nat.sub_0_r, firstn_all. unfold scope_of. now rewrite scope_tail_app.
Qed.

(* ---------- link value = resolveLinks key, for names without dots ---------- *)

Definition nodot (s : str) : bool := negb (existsb (N.eqb 46) s).

Lemma fmt_seg_nodot s : nodot s = true -> fmt_seg s = s.
Proof. unfold nodot, fmt_seg. intro H. apply negb_true_iff in H. now rewrite H. Qed.

Lemma join_with_snoc sep : forall l x, l <> [] -> join_with sep (l ++ [x]) = join_with sep l ++ sep :: x.
Proof.
  induction l as [|y l IH]; intros x H; [contradiction|].
  destruct l as [|z l].
  - reflexivity.
  - change ((y :: z :: l) ++ [x]) with (y :: (z :: l) ++ [x]).
    change (join_with sep (y :: (z :: l) ++ [x])) with (y ++ sep :: join_with sep ((z :: l) ++ [x])).
    rewrite IH by discriminate. change (join_with sep (y :: z :: l)) with (y ++ sep :: join_with sep (z :: l)).
    now rewrite <- app_assoc.
Qed.

Lemma fmt_key_pairs : forall ps pre, pre <> [] ->
  forallb (fun p => nodot (fst p) && nodot (snd p)) ps = true ->
  join_with 46 (pre ++ map fmt_seg (flat_map (fun p => [fst p; snd p]) ps))
    = key_pairs (join_with 46 pre) ps.
Proof.
  induction ps as [|[k n] ps IH]; intros pre Hpre H.
  - cbn. now rewrite app_nil_r.
  - cbn [forallb fst snd] in H. apply andb_prop in H as [Hkn H]. apply andb_prop in Hkn as [Hk Hn].
    cbn [flat_map map app fst snd key_pairs]. rewrite (fmt_seg_nodot k Hk), (fmt_seg_nodot n Hn).
    change (pre ++ k :: n :: map fmt_seg (flat_map (fun p => [fst p; snd p]) ps))
      with (pre ++ [k; n] ++ map fmt_seg (flat_map (fun p => [fst p; snd p]) ps)).
    rewrite app_assoc. rewrite IH; [| intro E; apply app_eq_nil in E as [_ E]; discriminate | exact H].
    f_equal. change (pre ++ [k; n]) with (pre ++ [k] ++ [n]). rewrite app_assoc.
    rewrite join_with_snoc by (intro E; apply app_eq_nil in E as [_ E]; discriminate).
    rewrite join_with_snoc by exact Hpre. unfold key_of. now rewrite <- app_assoc.
Qed.

(* the stored value of a link to the board ps IS the key resolveLinks files that board under *)
Lemma fmt_canon_key ps : forallb (fun p => nodot (fst p) && nodot (snd p)) ps = true ->
  fmt_strs (canon ps) = key_pairs s_root ps.
Proof.
  intro H. unfold fmt_strs, canon. cbn [map]. rewrite (fmt_seg_nodot s_root eq_refl).
  exact (fmt_key_pairs ps [s_root] ltac:(discriminate) H).
Qed.

(* ---------- refutations (each witness is a corpus program of the harness) ---------- *)

Definition b_leaf (n : str) : board := Board n false [] [] [].
Definition n_a : str := [97].
Definition n_b : str := [98].
Definition n_ab : str := [97; 46; 98].
(* root { layers: a { layers: b } ; layers: b ; layers: "a.b" } *)
Definition x_tree : board :=
  Board [] false [Board n_a false [b_leaf n_b] [] []; b_leaf n_b; b_leaf n_ab] [] [].

(* a link from an object of root.layers.a.layers.b to that very board is kept: Graph.IDA of a board
   at depth 2 is root.layers.a.b, never equal to the link root.layers.a.layers.b *)
Lemma self_link_refuted_nested :
  exists root ps l, length ps = 2%nat /\ map s_val l = canon ps
    /\ stored_link root (graph_ida ps)
         (scope_of [(s_layers, n_a, true); (s_layers, n_b, true)])
         [us_seg; useg s_layers; useg n_b] = Some l.
Proof.
  exists x_tree, [(s_layers, n_a); (s_layers, n_b)],
    [useg s_root; useg s_layers; useg n_a; useg s_layers; useg n_b].
  repeat split.
Qed.

(* links that are not board paths are accepted by hasBoard: layers.b.b and layers.a.root.layers.b *)
Lemma misshaped_link_kept :
  exists root l1 l2,
    stored_link root [s_root] [useg s_root] [useg s_layers; useg n_b; useg n_b] = Some l1
    /\ parse_canon (map s_val l1) = None
    /\ stored_link root [s_root] [useg s_root] [useg s_layers; useg n_a; useg s_root; useg s_layers; useg n_b] = Some l2
    /\ parse_canon (map s_val l2) = None.
Proof.
  exists x_tree. eexists. eexists. repeat split.
Qed.

(* a board whose name needs quoting: the stored link root.layers."a.b" is not the key root.layers.a.b,
   so relink leaves it as it is *)
Lemma relink_dotted_name_refuted :
  exists ext out root ps l ft,
    stored_link root [s_root] [useg s_root] [useg s_layers; Seg n_ab false] = Some l
    /\ map s_val l = canon ps
    /\ board_file ext ps out root = Some ft
    /\ relink_one (resolve_links ext s_root out root) s_root (fmt_strs (map s_val l)) = fmt_strs (map s_val l)
    /\ fmt_strs (map s_val l) <> path_str (rel (removelast [[119]; [111; 117; 116]; s_index ++ ext]) ft).
Proof.
  exists [46; 115; 118; 103], [[119]; [111; 117; 116]], x_tree, [(s_layers, n_ab)].
  eexists. eexists. split; [reflexivity|]. split; [reflexivity|]. split; [reflexivity|].
  split; [reflexivity|]. discriminate.
Qed.
