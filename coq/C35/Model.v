(* C35 — board links: d2ir compileLink / extendLinks, d2compiler validateBoardLinks / hasBoard,
   d2graph.Graph.IDA, d2cli resolveLinks / relink with filepath.Rel.  Definitions only.

   A key path (d2ast.KeyPath.IDA()) is a list of segments: the scalar string and whether the segment
   was written unquoted.  Link texts enter the model AFTER d2parser.ParseKey (the parser is outside
   this model); link values leave it through [fmt_ida], a model of d2format.Format on key paths that
   is only claimed (and checked per case) for names over letters, digits, '_', '-', ' ' and '.'.
   Boards, paths, Join and the output-file derivation are those of V.C34.Model. *)
From Coq Require Import List NArith Bool.
Import ListNotations.
Require Import V.Lib.RunCases.
Require Export V.C34.Model.
Open Scope N_scope.

Record seg := Seg { s_val : str; s_unq : bool }.
Definition ida := list seg.

Definition s_root : str := [114; 111; 111; 116].
Definition s_us : str := [95].
Definition useg (s : str) : seg := Seg s true.

(* ASCII case folding (strings.EqualFold restricted to ASCII) *)
Definition lower (c : N) : N := if (N.leb 65 c && N.leb c 90)%bool then c + 32 else c.
Definition fold_eqb (a b : str) : bool := str_eqb (map lower a) (map lower b).
Definition is_kind (s : str) : bool := str_eqb s s_layers || str_eqb s s_scenarios || str_eqb s s_steps.
Definition is_kind_fold (s : str) : bool := fold_eqb s s_layers || fold_eqb s s_scenarios || fold_eqb s s_steps.

(* ---- d2ir.compiler.compileLink ---- *)

(* "Chop off the non-board portion of the scope": for i := len-1; i > 0; i-- *)
Fixpoint chop_at (scope : ida) (i : nat) : ida :=
  match i with
  | O => scope
  | S j =>
      match nth_error scope j with
      | Some s =>
          if s_unq s && is_kind_fold (s_val s) then firstn (S i) scope
          else if str_eqb (s_val s) s_root && s_unq s then firstn i scope
          else chop_at scope j
      | None => chop_at scope j
      end
  end.
Definition chop (scope : ida) : ida := chop_at scope (length scope - 1).

Definition is_us (s : seg) : bool := str_eqb (s_val s) s_us && s_unq s.

(* "Resolve underscores": each leading _ pops two segments of the scope while it has >= 2 *)
Fixpoint pop_us (scope link : ida) : ida * ida :=
  match link with
  | l0 :: rest =>
      if is_us l0 then
        if Nat.ltb (length scope) 2 then (scope, link)
        else pop_us (removelast (removelast scope)) rest
      else (scope, link)
  | [] => (scope, link)
  end.

(* None: the value is left as written (not a board link) *)
Definition compile_link (scope link : ida) : option ida :=
  match scope, link with
  | [], _ => None
  | _, [] => None
  | _, l0 :: _ =>
      if negb (s_unq l0) then None
      else if negb (is_kind_fold (s_val l0) || str_eqb (s_val l0) s_us) then None
      else
        let '(sc, lk) := pop_us (chop scope) link in
        let sc := match sc with [] => [useg s_root] | _ => sc end in
        Some (sc ++ lk)
  end.

(* ---- d2ir.compiler.extendLinks (links of an imported file, rebased on the importing field) ---- *)

(* for _, id := range linkIDA[1:] { if id is "_" { drop it; importIDA = importIDA[:len-2] } else break } *)
Fixpoint extend_pop (imp rest : ida) : ida * ida :=
  match rest with
  | id :: rest' =>
      if is_us id then
        if Nat.ltb (length imp) 2 then (imp, rest)   (* len(linkIDA) >= 2 holds here *)
        else extend_pop (removelast (removelast imp)) rest'
      else (imp, rest)
  | [] => (imp, rest)
  end.

Definition extend_link (imp link : ida) : option ida :=
  match link with
  | [] => None
  | _ :: rest => let '(imp', rest') := extend_pop imp rest in Some (imp' ++ rest')
  end.

(* ---- d2compiler.hasBoard ---- *)

Definition find_board (name : str) (l : list board) : option board :=
  find (fun b => str_eqb (bname b) name) l.

Definition blayers (b : board) := match b with Board _ _ l _ _ => l end.
Definition bscenarios (b : board) := match b with Board _ _ _ s _ => s end.
Definition bsteps (b : board) := match b with Board _ _ _ _ t => t end.

Definition kind_list (k : str) (b : board) : option (list board) :=
  if str_eqb k s_layers then Some (blayers b)
  else if str_eqb k s_scenarios then Some (bscenarios b)
  else if str_eqb k s_steps then Some (bsteps b)
  else None.

Fixpoint has_board_f (fuel : nat) (b : board) (i : ida) : bool :=
  match fuel with
  | O => false
  | S fuel' =>
      match i with
      | [] => true
      | id :: rest =>
          if str_eqb (s_val id) s_root && s_unq id then has_board_f fuel' b rest
          else match rest with
               | [] => str_eqb (bname b) (s_val id)
               | next :: rest2 =>
                   match kind_list (s_val id) b with
                   | Some l => match find_board (s_val next) l with
                               | Some c => has_board_f fuel' c rest2
                               | None => false
                               end
                   | None => false
                   end
               end
      end
  end.
Definition has_board (root : board) (i : ida) : bool := has_board_f (S (length i)) root i.

(* ---- d2graph.Graph.IDA of the board at [pairs] (kind, name), as the code computes it:
        "root", then the kind of the INNERMOST board only, then all the names ---- *)
Definition graph_ida (pairs : list (str * str)) : list str :=
  match rev pairs with
  | [] => [s_root]
  | (k, _) :: _ => s_root :: k :: map snd pairs
  end.

(* ---- d2compiler.validateBoardLinks for one object: is the link kept? ---- *)
Definition validate (root : board) (gida : list str) (link : ida) : bool :=
  match link with
  | [] => false
  | l0 :: _ =>
      str_eqb (s_val l0) s_root
      && has_board root link
      && negb (list_eqb str_eqb (map s_val link) gida)
  end.

(* the whole compile-time treatment of one link written in scope [scope] on a board whose Graph.IDA is
   [gida]: Some = stored absolute link, None = dropped *)
(* compileLink stores d2format.Format(keypath); validateBoardLinks re-parses it.  On the alphabet of
   this model the round trip lower-cases unquoted board keywords (Layers -> layers: the formatter
   lower-cases reserved keywords in keys) and leaves a segment quoted iff it contains '.' *)
Definition roundtrip (i : ida) : ida :=
  map (fun s => let v := if s_unq s && is_kind_fold (s_val s) then map lower (s_val s) else s_val s in
                Seg v (negb (existsb (N.eqb 46) v))) i.

Definition stored_link (root : board) (gida : list str) (scope link : ida) : option ida :=
  let l := match compile_link scope link with Some r => roundtrip r | None => link end in
  if validate root gida l then Some l else None.

(* a link inside an imported file: compiled in the file's own scope, then rebased by extendLinks on the
   IDA [imp] of the importing field (and formatted again), then validated in the importing program *)
Definition stored_link_imported (root : board) (gida : list str) (imp scope link : ida) : option ida :=
  let l := match compile_link scope link with Some r => roundtrip r | None => link end in
  let e := match extend_link imp l with Some e => roundtrip e | None => l end in
  if validate root gida e then Some e else None.

(* ---- specification side: canonical board paths ---- *)
Fixpoint board_at (b : board) (pairs : list (str * str)) : option board :=
  match pairs with
  | [] => Some b
  | (k, n) :: rest =>
      match kind_list k b with
      | Some l => match find_board n l with Some c => board_at c rest | None => None end
      | None => None
      end
  end.

Definition canon (pairs : list (str * str)) : list str :=
  s_root :: flat_map (fun p => [fst p; snd p]) pairs.

(* read a list of strings as a canonical board path: root, then (kind, name) pairs *)
Fixpoint pairs_of (l : list str) : option (list (str * str)) :=
  match l with
  | [] => Some []
  | k :: n :: rest =>
      if is_kind k then match pairs_of rest with Some ps => Some ((k, n) :: ps) | None => None end
      else None
  | _ => None
  end.
Definition parse_canon (l : list str) : option (list (str * str)) :=
  match l with
  | r :: rest => if str_eqb r s_root then pairs_of rest else None
  | [] => None
  end.

Definition pairs_eqb (a b : list (str * str)) : bool :=
  list_eqb (fun x y => str_eqb (fst x) (fst y) && str_eqb (snd x) (snd y)) a b.

(* ---- d2format on key paths (restricted alphabet): a segment is double-quoted iff it contains '.' ---- *)
Definition fmt_seg (s : str) : str := if existsb (N.eqb 46) s then 34 :: s ++ [34] else s.
Fixpoint join_with (sep : N) (l : list str) : str :=
  match l with
  | [] => []
  | [x] => x
  | x :: rest => x ++ sep :: join_with sep rest
  end.
Definition fmt_strs (l : list str) : str := join_with 46 (map fmt_seg l).

(* ---- d2cli.resolveLinks: board key (names joined by '.', unquoted) -> output file ---- *)
Definition key_of (cur : str) (k n : str) : str := cur ++ 46 :: k ++ 46 :: n.

Fixpoint resolve_links (ext : str) (cur : str) (out : path) (b : board) : list (str * path) :=
  match b with
  | Board name _ ls ss ts =>
      let stem := if is_nil name then out else join out name in
      let kids := nonempty ls || nonempty ss || nonempty ts in
      let lstem := sub (nonempty ss || nonempty ts) stem s_layers in
      let sstem := sub (nonempty ls || nonempty ts) stem s_scenarios in
      let tstem := sub (nonempty ls || nonempty ss) stem s_steps in
      (cur, file_of ext (if kids then join stem s_index else stem))
      :: flat_map (fun c => resolve_links ext (key_of cur s_layers (bname c)) lstem c) ls
      ++ flat_map (fun c => resolve_links ext (key_of cur s_scenarios (bname c)) sstem c) ss
      ++ flat_map (fun c => resolve_links ext (key_of cur s_steps (bname c)) tstem c) ts
  end.

(* Go map semantics: a later assignment to the same key wins *)
Definition lookup (m : list (str * path)) (k : str) : option path :=
  match find (fun e => str_eqb (fst e) k) (rev m) with Some e => Some (snd e) | None => None end.

(* ---- filepath.Rel(base, targ) for absolute clean paths ---- *)
Fixpoint strip_common (a b : path) : path * path :=
  match a, b with
  | x :: a', y :: b' => if str_eqb x y then strip_common a' b' else (a, b)
  | _, _ => (a, b)
  end.
Definition rel (base targ : path) : path :=
  let '(a, b) := strip_common base targ in
  match map (fun _ => s_dotdot) a ++ b with [] => [s_dot] | r => r end.

Definition path_str (p : path) : str := join_with 47 p.

(* d2cli.relink for one shape link (a string) on the board with key [cur] *)
Definition relink_one (m : list (str * path)) (cur : str) (link : str) : str :=
  match lookup m link, lookup m cur with
  | Some v, Some c => path_str (rel (removelast c) v)
  | _, _ => link
  end.

(* following a relative link from a directory: Join(dir, rel) on segments *)
Definition follow (dir rel : path) : path := fold_left push rel dir.

(* key string of a canonical board path *)
Fixpoint key_pairs (cur : str) (pairs : list (str * str)) : str :=
  match pairs with
  | [] => cur
  | (k, n) :: rest => key_pairs (key_of cur k n) rest
  end.

(* ---- specification side: the output file of the board at a canonical path (C34's derivation) ---- *)
Fixpoint board_file (ext : str) (pairs : list (str * str)) (out : path) (b : board) : option path :=
  match b with
  | Board name _ ls ss ts =>
      let stem := if is_nil name then out else join out name in
      let kids := nonempty ls || nonempty ss || nonempty ts in
      match pairs with
      | [] => Some (file_of ext (if kids then join stem s_index else stem))
      | (k, n) :: rest =>
          let cstem :=
            if str_eqb k s_layers then sub (nonempty ss || nonempty ts) stem s_layers
            else if str_eqb k s_scenarios then sub (nonempty ls || nonempty ts) stem s_scenarios
            else sub (nonempty ls || nonempty ss) stem s_steps in
          match kind_list k b with
          | Some l => match find_board n l with
                      | Some c => board_file ext rest cstem c
                      | None => None
                      end
          | None => None
          end
      end
  end.

Fixpoint nodup_strs (l : list str) : bool :=
  match l with
  | [] => true
  | x :: l' => negb (existsb (str_eqb x) l') && nodup_strs l'
  end.
