From Coq Require Import ZArith QArith Qminmax List Bool Arith Lia Lqa.
Import ListNotations.
Require Import V.C22.Model.
Open Scope Q_scope.

(* ================================================================== newGridDiagram *)
Lemma grow_dims_rows fuel : forall cap n rows cols,
  (cap = rows * cols)%nat -> (1 <= cols)%nat -> (n <= fuel + cap)%nat ->
  let rc := grow_dims fuel cap n rows cols true in
  (n <= fst rc * snd rc /\ rows <= fst rc /\ snd rc = cols)%nat.
Proof.
  induction fuel as [|f IH]; intros cap n rows cols Hc H1 Hf; simpl.
  - repeat split; lia.
  - destruct (Nat.ltb cap n) eqn:E.
    + apply Nat.ltb_lt in E.
      destruct (IH (cap + cols)%nat n (S rows) cols) as (A & B & C); [lia | lia | lia |].
      repeat split; [exact A | lia | exact C].
    + apply Nat.ltb_ge in E. simpl. repeat split; lia.
Qed.

Lemma grow_dims_cols fuel : forall cap n rows cols,
  (cap = rows * cols)%nat -> (1 <= rows)%nat -> (n <= fuel + cap)%nat ->
  let rc := grow_dims fuel cap n rows cols false in
  (n <= fst rc * snd rc /\ cols <= snd rc /\ fst rc = rows)%nat.
Proof.
  induction fuel as [|f IH]; intros cap n rows cols Hc H1 Hf; simpl.
  - repeat split; lia.
  - destruct (Nat.ltb cap n) eqn:E.
    + apply Nat.ltb_lt in E.
      destruct (IH (cap + rows)%nat n rows (S cols)) as (A & B & C); [lia | lia | lia |].
      repeat split; [exact A | lia | exact C].
    + apply Nat.ltb_ge in E. simpl. repeat split; lia.
Qed.

(* the capacity loop terminates within n steps with rows*columns >= n, keeping the dimension the user
   fixed first and never shrinking the other *)
Lemma thm_capacity rows0 cols0 rows_first n :
  both_given rows0 cols0 = true ->
  let d := grid_dims rows0 cols0 rows_first n in
  (n <= d_rows d * d_cols d)%nat /\ (rows0 <= d_rows d)%nat /\ (cols0 <= d_cols d)%nat /\
  d_rowdir d = rows_first /\
  (if rows_first then d_cols d = cols0 else d_rows d = rows0).
Proof.
  unfold both_given, grid_dims. intro H. rewrite H. cbv zeta. simpl.
  apply andb_prop in H as [Hr Hc].
  apply negb_true_iff in Hr, Hc. apply Nat.eqb_neq in Hr, Hc.
  destruct rows_first.
  - destruct (grow_dims_rows n (rows0 * cols0) n rows0 cols0 eq_refl) as (A & B & C); [lia | lia |].
    repeat split; [exact A | exact B | lia | exact C].
  - destruct (grow_dims_cols n (rows0 * cols0) n rows0 cols0 eq_refl) as (A & B & C); [lia | lia |].
    repeat split; [exact A | lia | exact B | exact C].
Qed.

(* only one of the two given: that many rows (columns), but never more than cells *)
Lemma thm_one_dim rows0 cols0 rows_first n :
  both_given rows0 cols0 = false ->
  let d := grid_dims rows0 cols0 rows_first n in
  (cols0 = 0%nat -> d_rowdir d = true /\ d_rows d = Nat.min rows0 n) /\
  (cols0 <> 0%nat -> d_rowdir d = false /\ d_cols d = Nat.min cols0 n).
Proof.
  unfold both_given, grid_dims. intro H. rewrite H. cbv zeta.
  destruct (Nat.eqb cols0 0) eqn:E.
  - apply Nat.eqb_eq in E. split; intro K; [split; reflexivity | congruence].
  - apply Nat.eqb_neq in E. split; intro K; [congruence | split; reflexivity].
Qed.

(* ================================================================== chunks *)
Lemma chunk_f_concat {A} fuel k : forall l : list A, (1 <= k)%nat -> (length l <= fuel)%nat ->
  concat (chunk_f fuel k l) = l.
Proof.
  induction fuel as [|f IH]; intros l Hk Hl; simpl.
  - destruct l; [reflexivity | simpl in Hl; lia].
  - destruct l as [|a t]; [reflexivity|].
    simpl concat. rewrite IH; [apply firstn_skipn | exact Hk |].
    rewrite skipn_length. cbn [length] in *. lia.
Qed.

Lemma thm_chunk_concat {A} k (l : list A) : (1 <= k)%nat -> concat (chunk k l) = l.
Proof. intro H. apply chunk_f_concat; [exact H | lia]. Qed.

Lemma chunk_f_rows {A} fuel k : forall l : list A, (1 <= k)%nat ->
  Forall (fun r => (1 <= length r <= k)%nat) (chunk_f fuel k l).
Proof.
  induction fuel as [|f IH]; intros l Hk; simpl; [constructor|].
  destruct l as [|a t]; [constructor|]. constructor; [|apply IH, Hk].
  rewrite firstn_length. simpl length. destruct k; [lia|]. simpl. lia.
Qed.

Lemma thm_chunk_rows {A} k (l : list A) : (1 <= k)%nat ->
  Forall (fun r => (1 <= length r <= k)%nat) (chunk k l).
Proof. apply chunk_f_rows. Qed.

Lemma thm_split_by_concat {A} lens : forall l : list A,
  (length l <= fold_right Nat.add 0 lens)%nat -> concat (split_by lens l) = l.
Proof.
  induction lens as [|k t IH]; intros l H; simpl in *.
  - destruct l; [reflexivity | simpl in H; lia].
  - rewrite IH; [apply firstn_skipn|]. rewrite skipn_length. lia.
Qed.

(* ================================================================== Q helpers *)
Lemma close0 a b : close_b 0 a b = true <-> a == b.
Proof.
  unfold close_b. rewrite andb_true_iff, !Qle_bool_iff. split; [intros [A B] | intro E]; [lra | split; lra].
Qed.

Lemma close_refl tol a : 0 <= tol -> close_b tol a a = true.
Proof. intro H. unfold close_b. rewrite andb_true_iff, !Qle_bool_iff. split; lra. Qed.

Lemma fold_max_ge l : forall a, a <= fold_left Qmax l a.
Proof.
  induction l as [|x t IH]; intro a; simpl; [apply Qle_refl|].
  eapply Qle_trans; [apply Q.le_max_l | apply IH].
Qed.

Lemma fold_max_in l : forall a x, In x l -> x <= fold_left Qmax l a.
Proof.
  induction l as [|y t IH]; intros a x H; simpl; [destruct H|].
  destruct H as [->|H]; [|apply IH, H].
  eapply Qle_trans; [apply Q.le_max_r | apply fold_max_ge].
Qed.

Lemma qmax0_nonneg l : 0 <= qmax0 l.
Proof. apply fold_max_ge. Qed.
Lemma qmax0_in l x : In x l -> x <= qmax0 l.
Proof. apply fold_max_in. Qed.

(* ================================================================== structure of place_rows *)
Lemma place_row_ok gap y h ws : forall x, row_ok_b 0 gap x y h (place_row gap x y h ws) = true.
Proof.
  induction ws as [|w t IH]; intro x; simpl; [reflexivity|].
  rewrite !close_refl by apply Qle_refl. simpl. apply IH.
Qed.

Lemma place_rows_ok hgap vgap L : forall y,
  nonempty_rows_b L = true -> rows_ok_b 0 hgap vgap 0 y (place_rows hgap vgap y L) = true.
Proof.
  induction L as [|row t IH]; intros y H; simpl in *; [reflexivity|].
  apply andb_prop in H as [Hr Ht].
  destruct row as [|s r]; [discriminate|].
  simpl map. simpl place_row. cbv beta iota.
  set (h := qmax0 (snd s :: map snd r)).
  change (rows_ok_b 0 hgap vgap 0 y ((mkbox 0 y (fst s) h :: place_row hgap (0 + fst s + hgap) y h (map fst r)) :: place_rows hgap vgap (y + h + vgap) t) = true).
  simpl rows_ok_b. rewrite !close_refl by apply Qle_refl. simpl.
  rewrite place_row_ok. simpl. apply IH, Ht.
Qed.

Lemma place_row_length gap y h ws : forall x, length (place_row gap x y h ws) = length ws.
Proof. induction ws as [|w t IH]; intro x; simpl; [reflexivity | f_equal; apply IH]. Qed.

Lemma place_rows_shape hgap vgap L : forall y, map (@length box) (place_rows hgap vgap y L) = map (@length size) L.
Proof.
  induction L as [|row t IH]; intro y; simpl; [reflexivity|]. f_equal; [|apply IH].
  rewrite place_row_length. apply map_length.
Qed.

(* ================================================================== from structure to separation *)
Fixpoint pairwise {A} (P : A -> A -> Prop) (l : list A) : Prop :=
  match l with
  | [] => True
  | a :: t => Forall (P a) t /\ pairwise P t
  end.

Lemma pairwise_app {A} (P : A -> A -> Prop) l1 l2 :
  pairwise P l1 -> pairwise P l2 -> (forall a b, In a l1 -> In b l2 -> P a b) -> pairwise P (l1 ++ l2).
Proof.
  induction l1 as [|a t IH]; intros H1 H2 H; simpl; [exact H2|].
  destruct H1 as [Ha Ht]. split.
  - apply Forall_app. split; [exact Ha|]. apply Forall_forall. intros b Hb. apply H; [left; reflexivity | exact Hb].
  - apply IH; try assumption. intros x y Hx Hy. apply H; [right; exact Hx | exact Hy].
Qed.

Lemma pairwise_b_iff {A} (f : A -> A -> bool) l : pairwise_b f l = true <-> pairwise (fun a b => f a b = true) l.
Proof.
  induction l as [|a t IH]; simpl; [tauto|].
  rewrite andb_true_iff, forallb_forall, Forall_forall, IH. tauto.
Qed.

Definition sep (hgap vgap : Q) (a b : box) : Prop :=
  bx a + bw a + hgap <= bx b \/ by_ a + bh a + vgap <= by_ b.

Lemma sep_b_iff hgap vgap a b : sep_b 0 hgap vgap a b = true <-> sep hgap vgap a b.
Proof.
  unfold sep_b, sep. rewrite orb_true_iff, !Qle_bool_iff.
  assert (E1 : bx b + 0 == bx b) by ring. assert (E2 : by_ b + 0 == by_ b) by ring.
  rewrite E1, E2. tauto.
Qed.

Definition nonneg_box (b : box) : Prop := 0 <= bw b /\ 0 <= bh b.

Lemma row_ok_facts gap y h row : 0 <= gap -> Forall nonneg_box row -> forall x,
  row_ok_b 0 gap x y h row = true ->
  Forall (fun b => x <= bx b /\ by_ b == y /\ bh b == h) row /\
  pairwise (fun a b => bx a + bw a + gap <= bx b) row.
Proof.
  intros Hg Hn. induction Hn as [|b t [Hw Hh] _ IH]; intros x H; simpl in *; [split; [constructor | exact I]|].
  rewrite !andb_true_iff, !close0 in H. destruct H as [[[E1 E2] E3] Ht].
  destruct (IH _ Ht) as [F P]. split.
  - constructor; [split; [lra | split; assumption]|].
    eapply Forall_impl; [|exact F]. intros c (A & B & C). split; [lra | split; assumption].
  - split; [|exact P]. eapply Forall_impl; [|exact F]. intros c (A & _). exact A.
Qed.

(* exact row structure + non-negative sizes and gaps  ==>  every earlier cell is separated from every later
   one: to its right by >= hgap (same row) or below it by >= vgap (later row); all cells at or after (x0,y) *)
Lemma rows_ok_sep hgap vgap x0 R : 0 <= hgap -> 0 <= vgap -> Forall (Forall nonneg_box) R -> forall y,
  rows_ok_b 0 hgap vgap x0 y R = true ->
  pairwise (sep hgap vgap) (concat R) /\ Forall (fun b => x0 <= bx b /\ y <= by_ b) (concat R).
Proof.
  intros Hh Hv Hn. induction Hn as [|row t Hrow _ IH]; intros y H; simpl in *; [split; [exact I | constructor]|].
  destruct row as [|b r]; [discriminate|].
  apply andb_prop in H as [Hr Ht].
  destruct (row_ok_facts hgap y (bh b) (b :: r) Hh Hrow x0 Hr) as [F P].
  destruct (IH _ Ht) as [P2 F2].
  assert (Eb : by_ b == y) by (inversion F as [|? ? (_ & E & _) _]; exact E).
  assert (Hbh : 0 <= bh b) by (inversion Hrow as [|? ? [_ K] _]; exact K).
  split.
  - apply pairwise_app.
    + clear - P. revert P. generalize (b :: r). intro l. induction l as [|a l IHl]; simpl; [tauto|].
      intros [A B]. split; [|apply IHl, B]. eapply Forall_impl; [|exact A]. intros c K. left. exact K.
    + exact P2.
    + intros a c Ha Hc. right.
      rewrite Forall_forall in F, F2. destruct (F a Ha) as (_ & Ea & Eh). destruct (F2 c Hc) as (_ & Yc). lra.
  - apply Forall_app. split.
    + eapply Forall_impl; [|exact F]. intros c (A & B & _). split; [exact A | lra].
    + eapply Forall_impl; [|exact F2]. intros c (A & B). split; [exact A | lra].
Qed.

Definition nonneg_boxes_b (R : list (list box)) : bool :=
  forallb (forallb (fun b => Qle_bool 0 (bw b) && Qle_bool 0 (bh b))) R.

Lemma nonneg_boxes_iff R : nonneg_boxes_b R = true <-> Forall (Forall nonneg_box) R.
Proof.
  unfold nonneg_boxes_b. rewrite forallb_forall, Forall_forall. split; intros H r Hr; specialize (H r Hr).
  - rewrite forallb_forall in H. apply Forall_forall. intros b Hb. specialize (H b Hb).
    rewrite andb_true_iff, !Qle_bool_iff in H. exact H.
  - rewrite Forall_forall in H. apply forallb_forall. intros b Hb. specialize (H b Hb).
    rewrite andb_true_iff, !Qle_bool_iff. exact H.
Qed.

Lemma thm_structure_sep hgap vgap x0 y R :
  0 <= hgap -> 0 <= vgap -> nonneg_boxes_b R = true ->
  rows_ok_b 0 hgap vgap x0 y R = true ->
  sep_pairs_b 0 hgap vgap (concat R) = true.
Proof.
  intros Hh Hv Hn H. apply nonneg_boxes_iff in Hn.
  destruct (rows_ok_sep hgap vgap x0 R Hh Hv Hn y H) as [P _].
  unfold sep_pairs_b. apply pairwise_b_iff.
  clear - P. revert P. generalize (concat R). intro l. induction l as [|a l IH]; simpl; [tauto|].
  intros [A B]. split; [|apply IH, B]. eapply Forall_impl; [|exact A]. intros c K. apply sep_b_iff, K.
Qed.

(* separated cells do not overlap *)
Definition overlap (a b : box) : Prop :=
  bx a < bx b + bw b /\ bx b < bx a + bw a /\ by_ a < by_ b + bh b /\ by_ b < by_ a + bh a.

Lemma sep_no_overlap hgap vgap a b : 0 <= hgap -> 0 <= vgap -> sep hgap vgap a b -> ~ overlap a b.
Proof. unfold sep, overlap. intros Hh Hv [H|H] (A & B & C & D); lra. Qed.

(* ================================================================== sums *)
Fixpoint rsum (l : list Q) : Q := match l with [] => 0 | x :: t => x + rsum t end.

Lemma fold_plus l : forall a, fold_left Qplus l a == a + rsum l.
Proof.
  induction l as [|x t IH]; intro a; simpl; [ring|]. rewrite IH. ring.
Qed.

Lemma qsum_rsum l : qsum l == rsum l.
Proof. unfold qsum. rewrite fold_plus. ring. Qed.

Definition qlen {A} (l : list A) : Q := inject_Z (Z.of_nat (length l)).

Lemma qlen_cons {A} (a : A) l : qlen (a :: l) == qlen l + 1.
Proof.
  unfold qlen. cbn [length]. rewrite Nat2Z.inj_succ. unfold Z.succ. rewrite inject_Z_plus. reflexivity.
Qed.

Lemma qlen_pos {A} (l : list A) : l <> [] -> 0 < qlen l.
Proof.
  destruct l as [|a t]; [congruence|]. intros _. unfold qlen. cbn [length].
  change 0 with (inject_Z 0). rewrite <- Zlt_Qlt. lia.
Qed.

Lemma fold_row_width gap row : forall a,
  fold_left (fun x (s : size) => x + (fst s + gap)) row a == a + rsum (map fst row) + qlen row * gap.
Proof.
  induction row as [|s t IH]; intro a.
  - unfold qlen. simpl. ring.
  - cbn [fold_left map rsum]. rewrite IH, qlen_cons. ring.
Qed.

Lemma row_width_eq gap row : row_width gap row == rsum (map fst row) + qlen row * gap - gap.
Proof. unfold row_width. rewrite fold_row_width. ring. Qed.

Lemma rsum_nonneg l : Forall (fun x => 0 <= x) l -> 0 <= rsum l.
Proof. induction 1 as [|x t Hx _ IH]; simpl; lra. Qed.

Lemma rsum_map_add (f : size -> Q) row :
  rsum (map fst (map (fun s : size => (fst s + f s, snd s)) row)) == rsum (map fst row) + rsum (map f row).
Proof. induction row as [|s t IH]; simpl; [ring | rewrite IH; ring]. Qed.

Lemma rsum_map_const (g : Q) (row : list size) : rsum (map (fun _ => g) row) == qlen row * g.
Proof.
  induction row as [|s t IH]; [unfold qlen; simpl; ring|].
  cbn [map rsum]. rewrite IH, qlen_cons. ring.
Qed.

Lemma rsum_map_scale (d : size -> Q) (T g : Q) row : ~ T == 0 ->
  rsum (map (fun s => d s / T * g) row) == rsum (map d row) / T * g.
Proof.
  intro HT. induction row as [|s t IH]; simpl; [field; exact HT | rewrite IH; field; exact HT].
Qed.

Lemma Qlt_b_iff a b : Qlt_b a b = true <-> a < b.
Proof.
  unfold Qlt_b. rewrite negb_true_iff. split; intro H.
  - apply Qnot_le_lt. intro K. apply Qle_bool_iff in K. congruence.
  - destruct (Qle_bool b a) eqn:E; [|reflexivity]. apply Qle_bool_iff in E. lra.
Qed.

Lemma Qlt_b_false a b : Qlt_b a b = false <-> b <= a.
Proof.
  unfold Qlt_b. rewrite negb_false_iff. apply Qle_bool_iff.
Qed.

Lemma Qdiv_nonneg a b : 0 <= a -> 0 < b -> 0 <= a / b.
Proof.
  intros Ha Hb. unfold Qdiv. apply Qmult_le_0_compat; [exact Ha|]. apply Qlt_le_weak, Qinv_lt_0_compat, Hb.
Qed.

(* ================================================================== grow_row *)
Lemma map_snd_add (f : size -> Q) (row : list size) : map snd (map (fun s : size => (fst s + f s, snd s)) row) = map snd row.
Proof. rewrite map_map. apply map_ext. reflexivity. Qed.

Lemma forall2_map_add (f : size -> Q) (row : list size) : (forall s, In s row -> 0 <= f s) ->
  Forall2 (fun s s' : size => fst s <= fst s') row (map (fun s : size => (fst s + f s, snd s)) row).
Proof.
  induction row as [|s t IH]; intro H; simpl; constructor.
  - simpl. specialize (H s (or_introl eq_refl)). lra.
  - apply IH. intros x Hx. apply H. right. exact Hx.
Qed.

Lemma forall2_le_trans (l1 l2 l3 : list size) :
  Forall2 (fun s s' : size => fst s <= fst s') l1 l2 -> Forall2 (fun s s' : size => fst s <= fst s') l2 l3 ->
  Forall2 (fun s s' : size => fst s <= fst s') l1 l3.
Proof.
  intro H. revert l3. induction H as [|a b l1 l2 Hab _ IH]; intros l3 H3; inversion H3; subst; constructor.
  - eapply Qle_trans; eauto.
  - apply IH. assumption.
Qed.

Lemma forall2_le_refl (l : list size) : Forall2 (fun s s' : size => fst s <= fst s') l l.
Proof. induction l; constructor; [apply Qle_refl | assumption]. Qed.

Lemma grow_row_spec gap maxX row :
  row <> [] -> row_width gap row <= maxX ->
  let row' := grow_row gap maxX row in
  map snd row' = map snd row /\
  Forall2 (fun s s' : size => fst s <= fst s') row row' /\
  rsum (map fst row') == rsum (map fst row) + (maxX - row_width gap row).
Proof.
  intros Hne Hle. cbv zeta.
  set (delta := maxX - row_width gap row).
  set (widest := qmax0 (map fst row)).
  set (d := fun s : size => widest - fst s).
  set (T := qsum (map d row)).
  assert (Hrew : grow_row gap maxX row =
                 if Qeq_bool (row_width gap row) maxX then row
                 else (if Qlt_b T delta
                    then map (fun s : size => (fst s + (fun _ : size => (delta - T) / qlen row) s, snd s))
                           (if Qlt_b 0 T then map (fun s : size => (fst s + (fun s : size => d s / T * Qmin delta T) s, snd s)) row else row)
                    else (if Qlt_b 0 T then map (fun s : size => (fst s + (fun s : size => d s / T * Qmin delta T) s, snd s)) row else row)))
    by reflexivity.
  rewrite Hrew. clear Hrew.
  destruct (Qeq_bool (row_width gap row) maxX) eqn:E0.
  { apply Qeq_bool_iff in E0. repeat split; [apply forall2_le_refl | unfold delta; rewrite E0; ring]. }
  assert (Hd : forall s, In s row -> 0 <= d s).
  { intros s Hs. unfold d. assert (fst s <= widest) by (apply qmax0_in, in_map, Hs). lra. }
  assert (HT : T == rsum (map d row)) by apply qsum_rsum.
  assert (HT0 : 0 <= T).
  { rewrite HT. apply rsum_nonneg. apply Forall_forall. intros x Hx. apply in_map_iff in Hx as (s & <- & Hs). apply Hd, Hs. }
  assert (Hdelta : 0 <= delta) by (unfold delta; lra).
  pose proof (qlen_pos row Hne) as Hn.
  destruct (Qlt_b 0 T) eqn:E1; destruct (Qlt_b T delta) eqn:E2.
  - (* shares of total_diff, then an equal share of the rest *)
    apply Qlt_b_iff in E1, E2.
    assert (Emin : Qmin delta T == T) by (apply Q.min_r; lra).
    assert (HTn : ~ T == 0) by lra.
    split; [rewrite !map_map; apply map_ext; intro; reflexivity|]. split.
    + eapply forall2_le_trans.
      * apply (forall2_map_add (fun s => d s / T * Qmin delta T)). intros s Hs.
        apply Qmult_le_0_compat; [apply Qdiv_nonneg; [apply Hd, Hs | exact E1] | rewrite Emin; exact HT0].
      * apply (forall2_map_add (fun _ => (delta - T) / qlen row)). intros s Hs. apply Qdiv_nonneg; [lra | exact Hn].
    + rewrite (rsum_map_add (fun _ => (delta - T) / qlen row)).
      rewrite (rsum_map_add (fun s => d s / T * Qmin delta T)).
      rewrite rsum_map_scale by exact HTn. rewrite <- HT, Emin.
      rewrite (rsum_map_const ((delta - T) / qlen row)).
      unfold qlen in *. rewrite map_length. field. split; lra.
  - apply Qlt_b_iff in E1. apply Qlt_b_false in E2.
    assert (Emin : Qmin delta T == delta) by (apply Q.min_l; exact E2).
    assert (HTn : ~ T == 0) by lra.
    split; [rewrite !map_map; apply map_ext; intro; reflexivity|]. split.
    + apply (forall2_map_add (fun s => d s / T * Qmin delta T)). intros s Hs.
      apply Qmult_le_0_compat; [apply Qdiv_nonneg; [apply Hd, Hs | exact E1] | rewrite Emin; exact Hdelta].
    + rewrite (rsum_map_add (fun s => d s / T * Qmin delta T)).
      rewrite rsum_map_scale by exact HTn. rewrite <- HT, Emin. field. exact HTn.
  - apply Qlt_b_false in E1. apply Qlt_b_iff in E2.
    assert (HT00 : T == 0) by lra.
    split; [rewrite !map_map; apply map_ext; intro; reflexivity|]. split.
    + apply (forall2_map_add (fun _ => (delta - T) / qlen row)). intros s Hs. apply Qdiv_nonneg; [lra | exact Hn].
    + rewrite (rsum_map_add (fun _ => (delta - T) / qlen row)).
      rewrite (rsum_map_const ((delta - T) / qlen row)). rewrite HT00. field. lra.
  - apply Qlt_b_false in E1, E2.
    repeat split; [apply forall2_le_refl|]. assert (delta == 0) by lra. lra.
Qed.

(* ================================================================== boxes produced by place_rows *)
Lemma place_row_nonneg gap y h ws : 0 <= h -> Forall (fun w => 0 <= w) ws -> forall x,
  Forall nonneg_box (place_row gap x y h ws).
Proof.
  intros Hh H. induction H as [|w t Hw _ IH]; intro x; simpl; constructor; [split; assumption | apply IH].
Qed.

Lemma place_rows_nonneg hgap vgap L : Forall (Forall (fun s : size => 0 <= fst s)) L -> forall y,
  Forall (Forall nonneg_box) (place_rows hgap vgap y L).
Proof.
  induction 1 as [|row t Hr _ IH]; intro y; simpl; constructor; [|apply IH].
  apply place_row_nonneg; [apply qmax0_nonneg|].
  apply Forall_forall. intros w Hw. apply in_map_iff in Hw as (s & <- & Hs).
  rewrite Forall_forall in Hr. apply Hr, Hs.
Qed.

Lemma place_row_end gap y h : forall ws x, ws <> [] ->
  row_end (place_row gap x y h ws) == x + rsum ws + (qlen ws - 1) * gap.
Proof.
  induction ws as [|w t IH]; intros x Hne; [congruence|].
  destruct t as [|w2 t2].
  - unfold row_end, qlen. simpl. ring.
  - assert (E : row_end (place_row gap x y h (w :: w2 :: t2)) = row_end (place_row gap (x + w + gap) y h (w2 :: t2))) by reflexivity.
    rewrite E, IH by discriminate. rewrite (qlen_cons w (w2 :: t2)). cbn [rsum]. ring.
Qed.

Lemma forallb_map' {A B} (f : A -> B) (p : B -> bool) l : forallb p (map f l) = forallb (fun x => p (f x)) l.
Proof. induction l as [|a t IH]; simpl; [reflexivity | rewrite IH; reflexivity]. Qed.

Lemma forallb_ext' {A} (p q : A -> bool) l : (forall x, p x = q x) -> forallb p l = forallb q l.
Proof. intro H. induction l as [|a t IH]; simpl; [reflexivity | rewrite H, IH; reflexivity]. Qed.

(* ================================================================== layoutEvenly *)
Definition ew (cw : nat -> Q) (L : list (list size)) : list (list size) :=
  map (fun row : list size => combine (map cw (seq 0 (length row))) (map snd row)) L.

Lemma even_widths_ew L : even_widths L = ew (col_width L) L.
Proof. reflexivity. Qed.

Lemma combine_fst {A B} (l1 : list A) (l2 : list B) : length l1 = length l2 -> map fst (combine l1 l2) = l1.
Proof.
  revert l2. induction l1 as [|a t IH]; intros [|b t2] H; simpl in *; try reflexivity; try discriminate.
  f_equal. apply IH. lia.
Qed.

Lemma combine_snd {A B} (l1 : list A) (l2 : list B) : length l1 = length l2 -> map snd (combine l1 l2) = l2.
Proof.
  revert l2. induction l1 as [|a t IH]; intros [|b t2] H; simpl in *; try reflexivity; try discriminate.
  f_equal. apply IH. lia.
Qed.

Lemma ew_row_fst (cw : nat -> Q) (row : list size) :
  map fst (combine (map cw (seq 0 (length row))) (map snd row)) = map cw (seq 0 (length row)).
Proof. apply combine_fst. rewrite !map_length, seq_length. reflexivity. Qed.

Lemma ew_row_snd (cw : nat -> Q) (row : list size) :
  map snd (combine (map cw (seq 0 (length row))) (map snd row)) = map snd row.
Proof. apply combine_snd. rewrite !map_length, seq_length. reflexivity. Qed.

Lemma ew_row_length (cw : nat -> Q) (row : list size) :
  length (combine (map cw (seq 0 (length row))) (map snd row)) = length row.
Proof. rewrite combine_length, !map_length, seq_length. apply Nat.min_id. Qed.

Lemma ew_nonempty (cw : nat -> Q) L : nonempty_rows_b (ew cw L) = nonempty_rows_b L.
Proof.
  unfold nonempty_rows_b, ew. rewrite forallb_map'. apply forallb_ext'. intro row. rewrite ew_row_length. reflexivity.
Qed.

Lemma thm_evenly_rows_ok hgap vgap L : nonempty_rows_b L = true ->
  rows_ok_b 0 hgap vgap 0 0 (evenly_nf hgap vgap L) = true.
Proof.
  intro H. unfold evenly_nf. apply place_rows_ok. rewrite even_widths_ew, ew_nonempty. exact H.
Qed.

Lemma thm_evenly_shape hgap vgap L : map (@length box) (evenly_nf hgap vgap L) = map (@length size) L.
Proof.
  unfold evenly_nf. rewrite place_rows_shape, even_widths_ew. unfold ew. rewrite map_map.
  apply map_ext. intro row. apply ew_row_length.
Qed.

Lemma ew_widths_nonneg L : Forall (Forall (fun s : size => 0 <= fst s)) (even_widths L).
Proof.
  rewrite even_widths_ew. unfold ew. apply Forall_forall. intros r Hr.
  apply in_map_iff in Hr as (row & <- & _). apply Forall_forall. intros s Hs.
  assert (K : In (fst s) (map fst (combine (map (col_width L) (seq 0 (length row))) (map snd row)))) by (apply in_map, Hs).
  rewrite ew_row_fst in K. apply in_map_iff in K as (j & <- & _). apply qmax0_nonneg.
Qed.

(* no hypothesis on the sizes: column widths and row heights are maxima starting from 0 *)
Lemma thm_evenly_sep hgap vgap L : 0 <= hgap -> 0 <= vgap -> nonempty_rows_b L = true ->
  sep_pairs_b 0 hgap vgap (concat (evenly_nf hgap vgap L)) = true.
Proof.
  intros Hh Hv Hne. apply (thm_structure_sep hgap vgap 0 0); try assumption.
  - apply nonneg_boxes_iff. unfold evenly_nf. apply place_rows_nonneg, ew_widths_nonneg.
  - apply thm_evenly_rows_ok, Hne.
Qed.

Lemma same_cols_prefix gap cw y1 h1 y2 h2 : forall n1 n2 s x,
  same_cols_b 0 (place_row gap x y1 h1 (map cw (seq s n1))) (place_row gap x y2 h2 (map cw (seq s n2))) = true.
Proof.
  induction n1 as [|n1 IH]; intros n2 s x; simpl; [reflexivity|].
  destruct n2 as [|n2]; simpl; [reflexivity|].
  rewrite !close_refl by apply Qle_refl. simpl. apply IH.
Qed.

Lemma place_rows_ew_form hgap vgap cw L : forall y,
  Forall (fun r => exists y' h n, r = place_row hgap 0 y' h (map cw (seq 0 n))) (place_rows hgap vgap y (ew cw L)).
Proof.
  induction L as [|row t IH]; intro y; simpl; constructor; [|apply IH].
  rewrite ew_row_fst. eauto.
Qed.

Lemma thm_evenly_cols_aligned hgap vgap L : cols_aligned_b 0 (evenly_nf hgap vgap L) = true.
Proof.
  unfold evenly_nf. rewrite even_widths_ew.
  pose proof (place_rows_ew_form hgap vgap (col_width L) L 0) as F.
  destruct (place_rows hgap vgap 0 (ew (col_width L) L)) as [|r1 t]; [reflexivity|].
  simpl. inversion F as [|? ? (y1 & h1 & n1 & ->) Ft]; subst.
  apply forallb_forall. intros r Hr. rewrite Forall_forall in Ft.
  destruct (Ft r Hr) as (y2 & h2 & n2 & ->). apply same_cols_prefix.
Qed.

(* every cell is at least as large as it was *)
Definition fits (s : size) (b : box) : Prop := fst s <= bw b /\ snd s <= bh b.

Lemma place_row_fits gap y h (cw : nat -> Q) : forall (row : list size) s x,
  (forall k c, nth_error row k = Some c -> fst c <= cw (s + k)%nat /\ snd c <= h) ->
  Forall2 fits row (place_row gap x y h (map cw (seq s (length row)))).
Proof.
  induction row as [|c t IH]; intros s x H; simpl; constructor.
  - destruct (H 0%nat c eq_refl) as [A B]. rewrite Nat.add_0_r in A. split; assumption.
  - apply IH. intros k c' Hk. specialize (H (S k) c' Hk). rewrite Nat.add_succ_r in H. exact H.
Qed.

Lemma col_width_ge L row j c : In row L -> nth_error row j = Some c -> fst c <= col_width L j.
Proof.
  intros Hr Hj. unfold col_width. apply qmax0_in. apply in_flat_map. exists row. split; [exact Hr|].
  rewrite Hj. left. reflexivity.
Qed.

Lemma place_rows_ew_fits hgap vgap cw (L0 L : list (list size)) :
  (forall row j c, In row L -> nth_error row j = Some c -> fst c <= cw j) -> forall y,
  Forall2 (Forall2 fits) L (place_rows hgap vgap y (ew cw L)).
Proof.
  induction L as [|row t IH]; intros H y; simpl; constructor.
  - rewrite ew_row_fst, ew_row_snd. apply place_row_fits. intros k c Hk. split.
    + simpl. apply (H row k c); [left; reflexivity | exact Hk].
    + apply qmax0_in. apply in_map. eapply nth_error_In; eauto.
  - apply IH. intros r j c Hr. apply H. right. exact Hr.
Qed.

Lemma thm_evenly_fits hgap vgap L : Forall2 (Forall2 fits) L (evenly_nf hgap vgap L).
Proof.
  unfold evenly_nf. rewrite even_widths_ew. apply (place_rows_ew_fits hgap vgap (col_width L) L L).
  intros row j c Hr Hj. eapply col_width_ge; eauto.
Qed.

(* ================================================================== layoutDynamic *)
Lemma max_row_width_ge gap L row : In row L -> row_width gap row <= max_row_width gap L.
Proof. intro H. unfold max_row_width. apply qmax0_in, in_map, H. Qed.

Lemma nonempty_in {A} (L : list (list A)) row : nonempty_rows_b L = true -> In row L -> row <> [].
Proof.
  unfold nonempty_rows_b. rewrite forallb_forall. intros H Hr. specialize (H row Hr).
  destruct row; [discriminate | congruence].
Qed.

Lemma grow_row_length gap maxX row : row <> [] -> row_width gap row <= maxX ->
  length (grow_row gap maxX row) = length row.
Proof.
  intros Hne Hle. pose proof (grow_row_spec gap maxX row Hne Hle) as H. cbv zeta in H. destruct H as (E & _ & _).
  transitivity (length (map snd (grow_row gap maxX row))); [symmetry; apply map_length | rewrite E; apply map_length].
Qed.

Lemma grown_nonempty gap L : nonempty_rows_b L = true ->
  nonempty_rows_b (map (grow_row gap (max_row_width gap L)) L) = true.
Proof.
  intro H. unfold nonempty_rows_b. rewrite forallb_map'. apply forallb_forall. intros row Hr.
  cbv beta. rewrite grow_row_length; [| eapply nonempty_in; eauto | apply max_row_width_ge, Hr].
  pose proof (nonempty_in L row H Hr). destruct row; [congruence | reflexivity].
Qed.

Lemma thm_dynamic_rows_ok hgap vgap L : nonempty_rows_b L = true ->
  rows_ok_b 0 hgap vgap 0 0 (dynamic_nf hgap vgap L) = true.
Proof. intro H. unfold dynamic_nf. apply place_rows_ok, grown_nonempty, H. Qed.

Lemma thm_dynamic_shape hgap vgap L : nonempty_rows_b L = true ->
  map (@length box) (dynamic_nf hgap vgap L) = map (@length size) L.
Proof.
  intro H. unfold dynamic_nf. rewrite place_rows_shape, map_map.
  apply map_ext_in. intros row Hr. apply grow_row_length; [eapply nonempty_in; eauto | apply max_row_width_ge, Hr].
Qed.

Lemma nonneg_sizes_iff G : nonneg_sizes_b G = true <-> Forall (Forall (fun s : size => 0 <= fst s /\ 0 <= snd s)) G.
Proof.
  unfold nonneg_sizes_b. rewrite forallb_forall, Forall_forall. split; intros H r Hr; specialize (H r Hr).
  - rewrite forallb_forall in H. apply Forall_forall. intros s Hs. specialize (H s Hs).
    rewrite andb_true_iff, !Qle_bool_iff in H. exact H.
  - rewrite Forall_forall in H. apply forallb_forall. intros s Hs. specialize (H s Hs).
    rewrite andb_true_iff, !Qle_bool_iff. exact H.
Qed.

Lemma forall2_fst_nonneg (row row' : list size) :
  Forall2 (fun s s' : size => fst s <= fst s') row row' -> Forall (fun s : size => 0 <= fst s) row ->
  Forall (fun s : size => 0 <= fst s) row'.
Proof.
  induction 1 as [|a b l l' Hab _ IH]; intro H; [constructor|].
  inversion H; subst. constructor; [lra | apply IH; assumption].
Qed.

Lemma thm_dynamic_sep hgap vgap L : 0 <= hgap -> 0 <= vgap -> nonempty_rows_b L = true -> nonneg_sizes_b L = true ->
  sep_pairs_b 0 hgap vgap (concat (dynamic_nf hgap vgap L)) = true.
Proof.
  intros Hh Hv Hne Hnn. apply (thm_structure_sep hgap vgap 0 0); try assumption.
  - apply nonneg_boxes_iff. unfold dynamic_nf. apply place_rows_nonneg.
    apply Forall_forall. intros r Hr. apply in_map_iff in Hr as (row & <- & Hrow).
    destruct (grow_row_spec hgap (max_row_width hgap L) row) as (_ & F & _);
      [eapply nonempty_in; eauto | apply max_row_width_ge, Hrow |].
    eapply forall2_fst_nonneg; [exact F|].
    apply nonneg_sizes_iff in Hnn. rewrite Forall_forall in Hnn. specialize (Hnn row Hrow).
    eapply Forall_impl; [|exact Hnn]. intros s [A _]. exact A.
  - apply thm_dynamic_rows_ok, Hne.
Qed.

(* every row ends at x = the largest row width: the rows of a dynamic grid have the same extent *)
Lemma dynamic_row_ends hgap vgap maxX : forall L y,
  (forall row, In row L -> row <> [] /\ row_width hgap row <= maxX) ->
  Forall (fun r => row_end r == maxX) (place_rows hgap vgap y (map (grow_row hgap maxX) L)).
Proof.
  induction L as [|row t IH]; intros y H; simpl; constructor.
  - destruct (H row (or_introl eq_refl)) as [Hne Hle].
    destruct (grow_row_spec hgap maxX row Hne Hle) as (E1 & _ & E3).
    assert (Hlen : length (map fst (grow_row hgap maxX row)) = length row)
      by (rewrite map_length; apply grow_row_length; assumption).
    rewrite place_row_end.
    + rewrite E3, (row_width_eq hgap row). unfold qlen. rewrite Hlen. fold (qlen row). ring.
    + intro K. rewrite K in Hlen. destruct row; [congruence | discriminate].
  - apply IH. intros r Hr. apply H. right. exact Hr.
Qed.

Lemma thm_dynamic_same_end hgap vgap L : nonempty_rows_b L = true ->
  rows_same_end_b 0 (dynamic_nf hgap vgap L) = true.
Proof.
  intro Hne. unfold dynamic_nf.
  pose proof (dynamic_row_ends hgap vgap (max_row_width hgap L) L 0) as F.
  assert (K : forall row, In row L -> row <> [] /\ row_width hgap row <= max_row_width hgap L)
    by (intros row Hr; split; [eapply nonempty_in; eauto | apply max_row_width_ge, Hr]).
  specialize (F K).
  destruct (place_rows hgap vgap 0 (map (grow_row hgap (max_row_width hgap L)) L)) as [|r1 t]; [reflexivity|].
  simpl. inversion F as [|? ? E1 Ft]; subst. apply forallb_forall. intros r Hr.
  rewrite Forall_forall in Ft. apply close0. rewrite (Ft r Hr), E1. reflexivity.
Qed.

Lemma place_rows_fits hgap vgap : forall (L L' : list (list size)) y,
  Forall2 (fun row row' => map snd row' = map snd row /\ Forall2 (fun s s' : size => fst s <= fst s') row row') L L' ->
  Forall2 (Forall2 fits) L (place_rows hgap vgap y L').
Proof.
  intros L L' y H. revert y. induction H as [|row row' t t' [E F] _ IH]; intro y; simpl; constructor; [|apply IH].
  rewrite E. set (h := qmax0 (map snd row)).
  assert (Hh : forall s, In s row -> snd s <= h) by (intros s Hs; apply qmax0_in, in_map, Hs).
  clear E. clearbody h. generalize 0 at 1. induction F as [|a b l l' Hab _ IHF]; intro x; simpl; constructor.
  - split; [exact Hab | apply Hh; left; reflexivity].
  - apply IHF. intros s Hs. apply Hh. right. exact Hs.
Qed.

Lemma thm_dynamic_fits hgap vgap L : nonempty_rows_b L = true ->
  Forall2 (Forall2 fits) L (dynamic_nf hgap vgap L).
Proof.
  intro Hne. unfold dynamic_nf. apply place_rows_fits.
  assert (K : forall row, In row L -> row <> [] /\ row_width hgap row <= max_row_width hgap L)
    by (intros row Hr; split; [eapply nonempty_in; eauto | apply max_row_width_ge, Hr]).
  revert K. generalize (max_row_width hgap L). intros m K.
  induction L as [|row t IH]; simpl; constructor.
  - destruct (K row (or_introl eq_refl)) as [A B].
    destruct (grow_row_spec hgap m row A B) as (E & F & _). split; assumption.
  - apply IH.
    + unfold nonempty_rows_b in *. simpl in Hne. apply andb_prop in Hne as [_ Ht]. exact Ht.
    + intros r Hr. apply K. right. exact Hr.
Qed.

(* ================================================================== inside the content box *)
Lemma thm_inside_content hgap vgap R :
  0 <= hgap -> 0 <= vgap -> nonneg_boxes_b R = true -> rows_ok_b 0 hgap vgap 0 0 R = true ->
  forallb (inside_b 0 (mkbox 0 0 (content_w R) (content_h R))) (concat R) = true.
Proof.
  intros Hh Hv Hn H. apply nonneg_boxes_iff in Hn.
  destruct (rows_ok_sep hgap vgap 0 R Hh Hv Hn 0 H) as [_ F].
  apply forallb_forall. intros b Hb. rewrite Forall_forall in F. destruct (F b Hb) as [X Y].
  apply in_concat in Hb as (row & Hrow & Hbr).
  assert (W : bx b + bw b <= content_w R).
  { unfold content_w. eapply Qle_trans; [|apply qmax0_in, in_map, Hrow].
    unfold row_right. apply qmax0_in. apply (in_map (fun b => bx b + bw b)), Hbr. }
  assert (Hc : by_ b + bh b <= content_h R).
  { unfold content_h. apply qmax0_in. apply (in_map (fun b => by_ b + bh b)). apply in_concat. eauto. }
  unfold inside_b. cbn [bx by_ bw bh]. rewrite !andb_true_iff, !Qle_bool_iff. repeat split; lra.
Qed.

(* ================================================================== direction *)
Definition norm (rowdir : bool) (R : list (list box)) : list (list box) :=
  if rowdir then R else map (map tr_box) R.
Definition orient (rowdir : bool) (G : list (list size)) : list (list size) :=
  if rowdir then G else map (map tr_size) G.
Definition nf_layout (evenly : bool) := if evenly then evenly_nf else dynamic_nf.

Lemma tr_box_inv b : tr_box (tr_box b) = b.
Proof. destruct b; reflexivity. Qed.

Lemma layout_groups_norm evenly rowdir hgap vgap G :
  norm rowdir (layout_groups evenly rowdir hgap vgap G) =
  nf_layout evenly (if rowdir then hgap else vgap) (if rowdir then vgap else hgap) (orient rowdir G).
Proof.
  unfold norm, layout_groups, nf_layout, orient. destruct rowdir; [reflexivity|].
  rewrite map_map. erewrite map_ext; [apply map_id|].
  intro row. rewrite map_map. erewrite map_ext; [apply map_id|]. apply tr_box_inv.
Qed.

Lemma orient_nonempty rowdir G : nonempty_rows_b (orient rowdir G) = nonempty_rows_b G.
Proof.
  unfold orient. destruct rowdir; [reflexivity|]. unfold nonempty_rows_b. rewrite forallb_map'.
  apply forallb_ext'. intro r. rewrite map_length. reflexivity.
Qed.

Lemma orient_nonneg rowdir G : nonneg_sizes_b (orient rowdir G) = nonneg_sizes_b G.
Proof.
  unfold orient. destruct rowdir; [reflexivity|]. unfold nonneg_sizes_b. rewrite forallb_map'.
  apply forallb_ext'. intro r. rewrite forallb_map'. apply forallb_ext'. intro s. simpl. apply andb_comm.
Qed.

Section Oriented.
  Variables (evenly rowdir : bool) (hgap vgap : Q) (G : list (list size)).
  Let hg := if rowdir then hgap else vgap.
  Let vg := if rowdir then vgap else hgap.
  Let R := norm rowdir (layout_groups evenly rowdir hgap vgap G).

  Lemma R_eq : R = nf_layout evenly hg vg (orient rowdir G).
  Proof. apply layout_groups_norm. Qed.

  Lemma thm_exact : nonempty_rows_b G = true -> rows_ok_b 0 hg vg 0 0 R = true.
  Proof.
    intro H. rewrite R_eq. rewrite <- (orient_nonempty rowdir) in H. unfold nf_layout.
    destruct evenly; [apply thm_evenly_rows_ok | apply thm_dynamic_rows_ok]; exact H.
  Qed.

  Lemma thm_shape : nonempty_rows_b G = true -> map (@length box) R = map (@length size) G.
  Proof.
    intro H. rewrite R_eq. rewrite <- (orient_nonempty rowdir) in H. unfold nf_layout.
    assert (E : map (@length size) (orient rowdir G) = map (@length size) G).
    { unfold orient. destruct rowdir; [reflexivity|]. rewrite map_map. apply map_ext. intro r. apply map_length. }
    rewrite <- E. destruct evenly; [apply thm_evenly_shape | apply thm_dynamic_shape; exact H].
  Qed.

  Lemma thm_sep : 0 <= hgap -> 0 <= vgap -> nonempty_rows_b G = true -> (evenly = false -> nonneg_sizes_b G = true) ->
    sep_pairs_b 0 hg vg (concat R) = true.
  Proof.
    intros Hh Hv H Hn. rewrite R_eq. rewrite <- (orient_nonempty rowdir) in H.
    assert (Hhg : 0 <= hg) by (unfold hg; destruct rowdir; assumption).
    assert (Hvg : 0 <= vg) by (unfold vg; destruct rowdir; assumption).
    unfold nf_layout. destruct evenly.
    - apply thm_evenly_sep; assumption.
    - apply thm_dynamic_sep; try assumption. rewrite orient_nonneg. apply Hn. reflexivity.
  Qed.

  Lemma thm_fits : nonempty_rows_b G = true -> Forall2 (Forall2 fits) (orient rowdir G) R.
  Proof.
    intro H. rewrite R_eq. rewrite <- (orient_nonempty rowdir) in H. unfold nf_layout.
    destruct evenly; [apply thm_evenly_fits | apply thm_dynamic_fits; exact H].
  Qed.

  Lemma thm_cols : evenly = true -> cols_aligned_b 0 R = true.
  Proof. intro E. rewrite R_eq, E. apply thm_evenly_cols_aligned. Qed.

  Lemma thm_same_end : evenly = false -> nonempty_rows_b G = true -> rows_same_end_b 0 R = true.
  Proof.
    intros E H. rewrite R_eq, E. rewrite <- (orient_nonempty rowdir) in H. apply thm_dynamic_same_end, H.
  Qed.

  Lemma thm_inside : 0 <= hgap -> 0 <= vgap -> nonempty_rows_b G = true -> (evenly = false -> nonneg_sizes_b G = true) ->
    forallb (inside_b 0 (mkbox 0 0 (content_w R) (content_h R))) (concat R) = true.
  Proof.
    intros Hh Hv H Hn.
    assert (Hhg : 0 <= hg) by (unfold hg; destruct rowdir; assumption).
    assert (Hvg : 0 <= vg) by (unfold vg; destruct rowdir; assumption).
    apply (thm_inside_content hg vg); try assumption; [|apply thm_exact, H].
    rewrite R_eq. rewrite <- (orient_nonempty rowdir) in H. apply nonneg_boxes_iff.
    unfold nf_layout. destruct evenly.
    - unfold evenly_nf. apply place_rows_nonneg, ew_widths_nonneg.
    - unfold dynamic_nf. apply place_rows_nonneg.
      apply Forall_forall. intros r Hr. apply in_map_iff in Hr as (row & <- & Hrow).
      pose proof (grow_row_spec hg (max_row_width hg (orient rowdir G)) row) as S. cbv zeta in S.
      destruct S as (_ & F & _); [eapply nonempty_in; eauto | apply max_row_width_ge, Hrow |].
      eapply forall2_fst_nonneg; [exact F|].
      specialize (Hn eq_refl). rewrite <- (orient_nonneg rowdir) in Hn.
      apply nonneg_sizes_iff in Hn. rewrite Forall_forall in Hn. specialize (Hn row Hrow).
      eapply Forall_impl; [|exact Hn]. intros s [A _]. exact A.
  Qed.
End Oriented.

(* ================================================================== GenLayout *)
Lemma firstn_skipn_split {A} (l : list A) a b :
  firstn a l ++ firstn b (skipn a l) = firstn (a + b) l.
Proof.
  revert l. induction a as [|a IH]; intro l; simpl; [reflexivity|].
  destruct l as [|x t]; simpl; [rewrite firstn_nil; reflexivity|]. f_equal. apply IH.
Qed.

Lemma skipn_skipn' {A} (l : list A) a b : skipn b (skipn a l) = skipn (a + b) l.
Proof.
  revert l. induction a as [|a IH]; intro l; simpl; [reflexivity|].
  destruct l as [|x t]; simpl; [apply skipn_nil | apply IH].
Qed.

Lemma gen_rows_concat {A} (objs : list A) : forall ends t,
  concat (gen_rows objs t ends) = firstn (fold_left Nat.max ends t - t) (skipn t objs).
Proof.
  induction ends as [|e r IH]; intro t; simpl.
  - rewrite Nat.sub_diag. reflexivity.
  - rewrite IH. set (M := fold_left Nat.max r (Nat.max t e)).
    assert (HM : (Nat.max t e <= M)%nat).
    { unfold M. clear. generalize (Nat.max t e). induction r as [|x r IHr]; intro m; simpl; [lia|].
      specialize (IHr (Nat.max m x)). lia. }
    destruct (Nat.le_gt_cases e t) as [Hle|Hgt].
    + replace (e - t)%nat with 0%nat by lia. replace (Nat.max t e) with t in * by lia. reflexivity.
    + replace (Nat.max t e) with e in * by lia.
      replace (skipn e objs) with (skipn (e - t) (skipn t objs)) by (rewrite skipn_skipn'; f_equal; lia).
      rewrite firstn_skipn_split. f_equal. lia.
Qed.

(* whatever cut indices the partition search hands to GenLayout (sorted or not, repeated or not), the rows
   concatenated are exactly the cells in declaration order, and there is one row more than cuts *)
Lemma gen_rows_length {A} (objs : list A) : forall ends t, length (gen_rows objs t ends) = length ends.
Proof. induction ends as [|e r IH]; intro t; simpl; [reflexivity | f_equal; apply IH]. Qed.

Lemma fold_max_le (l : list nat) (b : nat) : Forall (fun c => (c <= b)%nat) l -> forall m, (m <= b)%nat ->
  (fold_left Nat.max l m <= b)%nat.
Proof. induction 1 as [|c t Hc _ IH]; intros m Hm; simpl; [exact Hm | apply IH; lia]. Qed.

Lemma thm_gen_layout {A} (objs : list A) cuts :
  Forall (fun c => (c < length objs)%nat) cuts ->
  concat (gen_layout objs cuts) = objs /\ length (gen_layout objs cuts) = S (length cuts).
Proof.
  intro H. unfold gen_layout. split.
  - rewrite gen_rows_concat. rewrite Nat.sub_0_r. simpl skipn.
    rewrite fold_left_app. simpl.
    assert (E : (fold_left Nat.max (map S cuts) 0%nat <= length objs)%nat).
    { apply fold_max_le; [|lia]. apply Forall_forall. intros x Hx. apply in_map_iff in Hx as (c & <- & Hc).
      rewrite Forall_forall in H. specialize (H c Hc). lia. }
    replace (Nat.max (fold_left Nat.max (map S cuts) 0%nat) (length objs)) with (length objs) by lia.
    apply firstn_all.
  - rewrite gen_rows_length, app_length, map_length. simpl. lia.
Qed.
