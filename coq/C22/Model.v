(* C22 — grid diagrams.  Model of d2layouts/d2grid:
     newGridDiagram   : rows/columns derivation (capacity loop, clamping to the number of cells, direction, gaps)
     layoutEvenly     : both rows and columns given
     layoutDynamic    : the placement half (row widths, growth of the thinner cells, cursor placement),
                        given the partition of the cells into rows (columns) that getBestLayout chose
   over exact rationals.  Both layouts are written for the row-directed case on a list of rows
   [L : list (list (w,h))]; the column-directed case is the same code with x/y, width/height and the
   two gaps exchanged ([transpose]), exactly as the two branches of the Go functions mirror each other.
   Cells of a row are the declaration-order chunks of the cells ([chunk] for layoutEvenly, the observed
   partition for layoutDynamic). *)
From Coq Require Import ZArith QArith Qminmax List Bool Arith Lia.
Import ListNotations.
Open Scope Q_scope.

Record box := mkbox { bx : Q; by_ : Q; bw : Q; bh : Q }.
Definition size := (Q * Q)%type.            (* (width, height) *)

(* math.Max folded from 0, as in  rowHeight := 0.; rowHeight = math.Max(rowHeight, o.Height) *)
Definition qmax0 (l : list Q) : Q := fold_left Qmax l 0.
Definition qsum (l : list Q) : Q := fold_left Qplus l 0.

(* ---------- newGridDiagram ---------- *)
Definition DEFAULT_GAP : Z := 40.

(* for capacity < len(objects) { rows++ / columns++ } ; fuel = number of cells suffices *)
Fixpoint grow_dims (fuel cap n rows cols : nat) (rowdir : bool) : nat * nat :=
  match fuel with
  | O => (rows, cols)
  | S f =>
      if Nat.ltb cap n
      then if rowdir then grow_dims f (cap + cols) n (S rows) cols rowdir
           else grow_dims f (cap + rows) n rows (S cols) rowdir
      else (rows, cols)
  end.

Record dims := mkdims { d_rows : nat; d_cols : nat; d_rowdir : bool }.

(* rows0 / cols0: values of grid-rows / grid-columns (0 = not set); rows_first: grid-rows is written
   before grid-columns; n: number of cells *)
Definition grid_dims (rows0 cols0 : nat) (rows_first : bool) (n : nat) : dims :=
  if negb (Nat.eqb rows0 0) && negb (Nat.eqb cols0 0) then
    let rc := grow_dims n (rows0 * cols0) n rows0 cols0 rows_first in
    mkdims (fst rc) (snd rc) rows_first
  else if Nat.eqb cols0 0 then mkdims (Nat.min rows0 n) 0 true
  else mkdims rows0 (Nat.min cols0 n) false.

Definition both_given (rows0 cols0 : nat) : bool := negb (Nat.eqb rows0 0) && negb (Nat.eqb cols0 0).

(* grid-gap sets both, vertical-gap / horizontal-gap override *)
Definition gaps (gap vgap hgap : option Z) : Z * Z :=      (* (horizontal, vertical) *)
  let base := match gap with Some g => g | None => DEFAULT_GAP end in
  (match hgap with Some g => g | None => base end, match vgap with Some g => g | None => base end).

(* ---------- declaration-order chunks ---------- *)
Fixpoint chunk_f {A} (fuel k : nat) (l : list A) : list (list A) :=
  match fuel with
  | O => []
  | S f => match l with
           | [] => []
           | _ => firstn k l :: chunk_f f k (skipn k l)
           end
  end.
Definition chunk {A} (k : nat) (l : list A) : list (list A) := chunk_f (length l) k l.

(* GenLayout read the other way round: the rows given by their lengths *)
Fixpoint split_by {A} (lens : list nat) (l : list A) : list (list A) :=
  match lens with
  | [] => []
  | k :: t => firstn k l :: split_by t (skipn k l)
  end.

(* GenLayout(objects, cutIndices): row i takes the objects from the running index up to cutIndices[i]
   (the last row up to len-1); a cut at or before the running index gives an empty row.
   [ends] are the exclusive ends cut+1, [t] the running index. *)
Fixpoint gen_rows {A} (objs : list A) (t : nat) (ends : list nat) : list (list A) :=
  match ends with
  | [] => []
  | e :: r => firstn (e - t) (skipn t objs) :: gen_rows objs (Nat.max t e) r
  end.
Definition gen_layout {A} (objs : list A) (cuts : list nat) : list (list A) :=
  gen_rows objs 0 (map S cuts ++ [length objs]).

(* ---------- placement shared by both layouts (row-directed form) ---------- *)
(* one row: cursor.X runs from 0, every cell gets the row height *)
Fixpoint place_row (gap x y h : Q) (ws : list Q) : list box :=
  match ws with
  | [] => []
  | w :: t => mkbox x y w h :: place_row gap (x + w + gap) y h t
  end.

(* rows: cursor.Y += rowHeight + verticalGap *)
Fixpoint place_rows (hgap vgap y : Q) (L : list (list size)) : list (list box) :=
  match L with
  | [] => []
  | row :: t =>
      let h := qmax0 (map snd row) in
      place_row hgap 0 y h (map fst row) :: place_rows hgap vgap (y + h + vgap) t
  end.

(* ---------- layoutEvenly ---------- *)
(* colWidths[j] = max over the rows that have a j-th cell *)
Definition col_width (L : list (list size)) (j : nat) : Q :=
  qmax0 (flat_map (fun row => match nth_error row j with Some s => [fst s] | None => [] end) L).

(* o.Width = colWidths[j] *)
Definition even_widths (L : list (list size)) : list (list size) :=
  map (fun row => combine (map (col_width L) (seq 0 (length row))) (map snd row)) L.

Definition evenly_nf (hgap vgap : Q) (L : list (list size)) : list (list box) :=
  place_rows hgap vgap 0 (even_widths L).

(* ---------- layoutDynamic, after getBestLayout ---------- *)
(* x := 0; for o in row { x += o.Width + gap }; rowWidth := x - gap *)
Definition row_width (gap : Q) (row : list size) : Q :=
  fold_left (fun x s => x + (fst s + gap)) row 0 - gap.

Definition Qlt_b (a b : Q) : bool := negb (Qle_bool b a).

(* "expand thinnest objects to make each row the same width" *)
Definition grow_row (gap maxX : Q) (row : list size) : list size :=
  let rw := row_width gap row in
  if Qeq_bool rw maxX then row
  else
    let delta := maxX - rw in
    let widest := qmax0 (map fst row) in
    let total_diff := qsum (map (fun s => widest - fst s) row) in
    let row1 :=
      if Qlt_b 0 total_diff
      then let growth := Qmin delta total_diff in
           map (fun s => (fst s + ((widest - fst s) / total_diff) * growth, snd s)) row
      else row in
    if Qlt_b total_diff delta
    then let g := (delta - total_diff) / inject_Z (Z.of_nat (length row)) in
         map (fun s => (fst s + g, snd s)) row1
    else row1.

Definition max_row_width (gap : Q) (L : list (list size)) : Q := qmax0 (map (row_width gap) L).

Definition dynamic_nf (hgap vgap : Q) (L : list (list size)) : list (list box) :=
  place_rows hgap vgap 0 (map (grow_row hgap (max_row_width hgap L)) L).

(* ---------- direction ---------- *)
Definition tr_size (s : size) : size := (snd s, fst s).
Definition tr_box (b : box) : box := mkbox (by_ b) (bx b) (bh b) (bw b).

(* the layout of one grid: cells in declaration order, grouped into rows (row-directed) or columns *)
Definition layout_groups (evenly rowdir : bool) (hgap vgap : Q) (G : list (list size)) : list (list box) :=
  let f := if evenly then evenly_nf else dynamic_nf in
  if rowdir then f hgap vgap G
  else map (map tr_box) (f vgap hgap (map (map tr_size) G)).

(* gd.width, gd.height *)
Definition row_right (row : list box) : Q := qmax0 (map (fun b => bx b + bw b) row).
Definition content_w (R : list (list box)) : Q := qmax0 (map row_right R).
Definition content_h (R : list (list box)) : Q := qmax0 (map (fun b => by_ b + bh b) (concat R)).

(* ---------- the property predicates (row-directed form; tol = rounding slack, 0 in the theorems) ---------- *)
Definition close_b (tol a b : Q) : bool := Qle_bool (a - b) tol && Qle_bool (b - a) tol.

(* exact structure of one row: starts at x, neighbours separated by exactly the gap, common top y and height h *)
Fixpoint row_ok_b (tol gap x y h : Q) (row : list box) : bool :=
  match row with
  | [] => true
  | b :: t => close_b tol (bx b) x && close_b tol (by_ b) y && close_b tol (bh b) h
              && row_ok_b tol gap (bx b + bw b + gap) y h t
  end.

(* rows start at x0, are non-empty, and follow each other at distance row height + vertical gap *)
Fixpoint rows_ok_b (tol hgap vgap x0 y : Q) (R : list (list box)) : bool :=
  match R with
  | [] => true
  | row :: t =>
      match row with
      | [] => false
      | b :: _ => row_ok_b tol hgap x0 y (bh b) row && rows_ok_b tol hgap vgap x0 (by_ b + bh b + vgap) t
      end
  end.

(* layoutEvenly: the j-th cells of all rows share x and width *)
Fixpoint same_cols_b (tol : Q) (r1 r2 : list box) : bool :=
  match r1, r2 with
  | a :: t1, b :: t2 => close_b tol (bx a) (bx b) && close_b tol (bw a) (bw b) && same_cols_b tol t1 t2
  | _, _ => true
  end.
Definition cols_aligned_b (tol : Q) (R : list (list box)) : bool :=
  match R with
  | [] => true
  | r1 :: t => forallb (same_cols_b tol r1) t
  end.

(* layoutDynamic: every row ends at the same x *)
Definition row_end (row : list box) : Q := match last row (mkbox 0 0 0 0) with b => bx b + bw b end.
Definition rows_same_end_b (tol : Q) (R : list (list box)) : bool :=
  match R with
  | [] => true
  | r1 :: t => forallb (fun r => close_b tol (row_end r) (row_end r1)) t
  end.

(* declaration order, gaps and non-overlap in one relation: for a declared before b (row-directed):
   b lies to the right of a by at least the horizontal gap, or below a by at least the vertical gap *)
Definition sep_b (tol hgap vgap : Q) (a b : box) : bool :=
  Qle_bool (bx a + bw a + hgap) (bx b + tol) || Qle_bool (by_ a + bh a + vgap) (by_ b + tol).

Fixpoint pairwise_b {A} (f : A -> A -> bool) (l : list A) : bool :=
  match l with
  | [] => true
  | a :: t => forallb (f a) t && pairwise_b f t
  end.

Definition sep_pairs_b (tol hgap vgap : Q) (cells : list box) : bool := pairwise_b (sep_b tol hgap vgap) cells.

(* cell inside the container box *)
Definition inside_b (tol : Q) (c b : box) : bool :=
  Qle_bool (bx c) (bx b + tol) && Qle_bool (by_ c) (by_ b + tol) &&
  Qle_bool (bx b + bw b) (bx c + bw c + tol) && Qle_bool (by_ b + bh b) (by_ c + bh c + tol).

Definition nonneg_sizes_b (G : list (list size)) : bool :=
  forallb (forallb (fun s : size => Qle_bool 0 (fst s) && Qle_bool 0 (snd s))) G.
Definition nonempty_rows_b {A} (G : list (list A)) : bool := forallb (fun r => negb (Nat.eqb (length r) 0)) G.
