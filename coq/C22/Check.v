(* Executable checker for C22 cases: one grid diagram (root-level or nested) per case.
   The harness runs the real grid layout (d2grid.Layout directly on compiled graphs with chosen cell sizes,
   or the whole pipeline d2compiler -> SetDimensions(real ruler) -> LayoutNested(dagre)) and passes
     rows0 cols0   values of grid-rows / grid-columns (0 = absent), rows_first = grid-rows written first
     gap vgap hgap values of grid-gap / vertical-gap / horizontal-gap when present
     cells         in declaration order: size before the grid layout (when the harness could capture it),
                   final box, and whether the cell is "plain" (no outside label/icon, no 3d/multiple: the
                   code adds no margin around it, so its final box is its slot)
     container     final box of the grid container. *)
From Coq Require Import ZArith QArith List Bool NArith Arith.
Import ListNotations.
Require Import V.Lib.RunCases.
Require Export V.C22.Model.
Open Scope Q_scope.

Definition qz (z : Z) : Q := inject_Z z.
Definition qd (m : Z) (e : N) : Q := Qmake m (match e with N0 => 1%positive | Npos p => Pos.pow 2 p end).   (* m / 2^e *)

Record cell := mkcell { c_in : option size; c_box : box; c_plain : bool }.

Inductive case :=
| Case (rows0 cols0 : nat) (rows_first : bool) (gap vgap hgap : option Z) (cells : list cell) (container : option box)
| CGen (n : nat) (cuts : list nat) (impl : list (list nat)).
    (* d2grid.GenLayout on n objects (numbered 0..n-1) with the given cut indices; the rows it returned *)

Definition tol : Q := 1 # 1000000.

(* read the partition of a dynamic layout off the output: a new row starts where the top changes *)
Fixpoint read_rows (y : Q) (cur : nat) (l : list box) : list nat :=
  match l with
  | [] => [cur]
  | b :: t => if close_b tol (by_ b) y then read_rows y (S cur) t else cur :: read_rows (by_ b) 1 t
  end.
Definition read_partition (l : list box) : list nat :=
  match l with
  | [] => []
  | b :: t => read_rows (by_ b) 1 t
  end.

Definition box_close (dx dy : Q) (m i : box) : bool :=
  close_b tol (bx m + dx) (bx i) && close_b tol (by_ m + dy) (by_ i) && close_b tol (bw m) (bw i) && close_b tol (bh m) (bh i).

Fixpoint all_some {A} (l : list (option A)) : option (list A) :=
  match l with
  | [] => Some []
  | Some x :: t => match all_some t with Some r => Some (x :: r) | None => None end
  | None :: _ => None
  end.

(* codes: 1  model boxes differ from the implementation's (up to the common shift of the container padding);
          2  layoutDynamic's partition is not "exactly rows (columns) non-empty groups in declaration order";
          3  a gap or an input size is negative (theorem hypotheses);
          10 some pair of cells violates order/gap/non-overlap: the later cell is neither right of the earlier
             one by >= horizontal gap nor below it by >= vertical gap (row-directed; transposed otherwise);
          11 a cell is not inside the grid container;
          12 (plain grids) exact structure: neighbours at exactly the gap, common top and height per row, rows
             at row height + gap;  13 (plain, both rows and columns given) a column's cells differ in x or width;
          14 (plain, dynamic) rows do not end at the same x. *)
Definition check_case (c : case) : list N :=
  match c with
  | Case rows0 cols0 rows_first gap vgap hgap cells container =>
      let n := length cells in
      let d := grid_dims rows0 cols0 rows_first n in
      let evenly := both_given rows0 cols0 in
      let rowdir := d_rowdir d in
      let g := gaps gap vgap hgap in
      let hg := if rowdir then qz (fst g) else qz (snd g) in     (* gap along the direction of a group *)
      let vg := if rowdir then qz (snd g) else qz (fst g) in
      let k := if rowdir then d_cols d else d_rows d in           (* evenly: cells per group *)
      let ngroups := if rowdir then d_rows d else d_cols d in
      let boxes := map c_box cells in
      let nf := if rowdir then boxes else map tr_box boxes in
      let plain := forallb c_plain cells in
      let lens := if evenly then map (@length box) (chunk k nf) else read_partition nf in
      let R := split_by lens nf in
      let hyp_part := evenly || negb plain || Nat.eqb n 0 ||
                      (Nat.eqb (length lens) ngroups && nonempty_rows_b R && Nat.eqb (fold_left Nat.add lens 0%nat) n) in
      let ins := all_some (map c_in cells) in
      let hyp_in := Qle_bool 0 hg && Qle_bool 0 vg &&
                    match ins with Some l => forallb (fun s : size => Qle_bool 0 (fst s) && Qle_bool 0 (snd s)) l | None => true end in
      let corr :=
        match ins, nf with
        | Some l, b0 :: _ =>
            if plain then
              let l' := if rowdir then l else map tr_size l in
              let M := concat ((if evenly then evenly_nf else dynamic_nf) hg vg (split_by lens l')) in
              match M with
              | m0 :: _ => list_eqb (box_close (bx b0 - bx m0) (by_ b0 - by_ m0)) M nf
              | [] => false
              end
            else true
        | _, _ => true
        end in
      let sep := sep_pairs_b tol hg vg nf in
      let inside := match container with Some cb => forallb (inside_b tol cb) boxes | None => true end in
      let exact := match nf with
                   | b0 :: _ => implb plain (rows_ok_b tol hg vg (bx b0) (by_ b0) R)
                   | [] => true end in
      let cols := implb (plain && evenly) (cols_aligned_b tol R) in
      let ends := implb (plain && negb evenly) (rows_same_end_b tol R) in
      flag corr 1 ++ flag hyp_part 2 ++ flag hyp_in 3
      ++ flag sep 10 ++ flag inside 11 ++ flag exact 12 ++ flag cols 13 ++ flag ends 14
  | CGen n cuts impl =>
      (* 1: model rows differ; 15: the rows concatenated are not the objects in declaration order *)
      flag (list_eqb (list_eqb Nat.eqb) (gen_layout (seq 0 n) cuts) impl) 1
      ++ flag (list_eqb Nat.eqb (concat impl) (seq 0 n)) 15
  end.
