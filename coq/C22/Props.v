(* C22 — Grid cells follow declaration order, align, keep gaps and never overlap.  Statements only.

   [layout_groups evenly rowdir hgap vgap G] is the model of layoutEvenly (evenly = true: both grid-rows and
   grid-columns given) and of the placement half of layoutDynamic (evenly = false) for the cells [G], given
   in declaration order and grouped into rows (rowdir = true) or columns (rowdir = false):
   [G = chunk k cells] for layoutEvenly, ANY grouping for layoutDynamic (the partition getBestLayout chose
   is universally quantified).  Cell counts, sizes and gaps are arbitrary rationals.
   [norm rowdir] / [orient rowdir] transpose boxes / sizes of a column-directed grid, so that every statement
   reads "row" for the group direction; the gap between neighbours of a group is
   [if rowdir then hgap else vgap], the gap between groups the other one. *)
From Coq Require Import ZArith QArith List Bool Arith.
Import ListNotations.
Require Import V.C22.Model V.C22.Proofs.
Open Scope Q_scope.

(* --- grid dimensions (newGridDiagram) --- *)

(* Both rows and columns given: the capacity loop ends with rows*columns >= number of cells for EVERY n,
   keeps the dimension named first and only ever enlarges the other one. *)
Theorem C22_capacity_covers :
  forall rows0 cols0 rows_first n,
    both_given rows0 cols0 = true ->
    let d := grid_dims rows0 cols0 rows_first n in
    (n <= d_rows d * d_cols d)%nat /\ (rows0 <= d_rows d)%nat /\ (cols0 <= d_cols d)%nat /\
    d_rowdir d = rows_first /\
    (if rows_first then d_cols d = cols0 else d_rows d = rows0).
Proof. exact thm_capacity. Qed.

(* Only one given: row-directed iff it is grid-rows; that many groups, never more than cells. *)
Theorem C22_single_dimension :
  forall rows0 cols0 rows_first n,
    both_given rows0 cols0 = false ->
    let d := grid_dims rows0 cols0 rows_first n in
    (cols0 = 0%nat -> d_rowdir d = true /\ d_rows d = Nat.min rows0 n) /\
    (cols0 <> 0%nat -> d_rowdir d = false /\ d_cols d = Nat.min cols0 n).
Proof. exact thm_one_dim. Qed.

(* --- declaration order --- *)

(* layoutEvenly's groups are the consecutive chunks of the declaration order: concatenated they give the
   cells back, each chunk is non-empty and has at most k cells. *)
Theorem C22_chunks_are_declaration_order :
  forall (k : nat) (cells : list size), (1 <= k)%nat ->
    concat (chunk k cells) = cells /\ Forall (fun r => (1 <= length r <= k)%nat) (chunk k cells).
Proof. exact (fun k cells H => conj (thm_chunk_concat k cells H) (thm_chunk_rows k cells H)). Qed.

(* layoutDynamic's groups come from GenLayout(objects, cutIndices): for ANY cut indices below the number of
   cells (sorted or not, repeated or not -- whatever fastLayout / iterDivisions produce) the rows
   concatenated are the cells in declaration order, and there are exactly cuts+1 rows. *)
Theorem C22_gen_layout_is_ordered_partition :
  forall (cells : list size) (cuts : list nat),
    Forall (fun c => (c < length cells)%nat) cuts ->
    concat (gen_layout cells cuts) = cells /\ length (gen_layout cells cuts) = S (length cuts).
Proof. exact (thm_gen_layout (A := size)). Qed.

(* The layout keeps the grouping: as many boxes per group as cells, in the same order (the i-th box of the
   j-th group belongs to the i-th cell of the j-th group) ... *)
Theorem C22_layout_keeps_order :
  forall (evenly rowdir : bool) (hgap vgap : Q) G,
    nonempty_rows_b G = true ->
    map (@length box) (norm rowdir (layout_groups evenly rowdir hgap vgap G)) = map (@length size) G.
Proof. exact thm_shape. Qed.

(* ... and no cell is made smaller than it was. *)
Theorem C22_cells_never_shrink :
  forall (evenly rowdir : bool) (hgap vgap : Q) G,
    nonempty_rows_b G = true ->
    Forall2 (Forall2 fits) (orient rowdir G) (norm rowdir (layout_groups evenly rowdir hgap vgap G)).
Proof. exact thm_fits. Qed.

(* --- exact structure: gaps and alignment --- *)

(* Every group starts at 0, neighbours in a group are separated by exactly the gap, all cells of a group
   have the same top and the same height, and consecutive groups are exactly (group height + gap) apart. *)
Theorem C22_exact_gaps_and_row_alignment :
  forall (evenly rowdir : bool) (hgap vgap : Q) G,
    nonempty_rows_b G = true ->
    rows_ok_b 0 (if rowdir then hgap else vgap) (if rowdir then vgap else hgap) 0 0
      (norm rowdir (layout_groups evenly rowdir hgap vgap G)) = true.
Proof. exact thm_exact. Qed.

(* Both rows and columns given: the j-th cells of all groups share x and width (with the previous theorem:
   every cell of a row has the same height, every cell of a column the same width). *)
Theorem C22_evenly_columns_aligned :
  forall (rowdir : bool) (hgap vgap : Q) G,
    cols_aligned_b 0 (norm rowdir (layout_groups true rowdir hgap vgap G)) = true.
Proof. exact (fun rowdir hgap vgap G => thm_cols true rowdir hgap vgap G eq_refl). Qed.

(* Only rows (columns) given: every group is stretched to the same extent, for every partition. *)
Theorem C22_dynamic_groups_same_extent :
  forall (rowdir : bool) (hgap vgap : Q) G,
    nonempty_rows_b G = true ->
    rows_same_end_b 0 (norm rowdir (layout_groups false rowdir hgap vgap G)) = true.
Proof. exact (fun rowdir hgap vgap G H => thm_same_end false rowdir hgap vgap G eq_refl H). Qed.

(* --- order, gaps and non-overlap in one relation --- *)

(* For any two cells, the one declared later lies to the right of the earlier one by at least the gap
   along the group, or below it by at least the other gap.  layoutEvenly needs no assumption on the sizes;
   layoutDynamic needs them non-negative. *)
Theorem C22_ordered_and_separated :
  forall (evenly rowdir : bool) (hgap vgap : Q) G,
    0 <= hgap -> 0 <= vgap -> nonempty_rows_b G = true ->
    (evenly = false -> nonneg_sizes_b G = true) ->
    sep_pairs_b 0 (if rowdir then hgap else vgap) (if rowdir then vgap else hgap)
      (concat (norm rowdir (layout_groups evenly rowdir hgap vgap G))) = true.
Proof. exact thm_sep. Qed.

(* The same holds for ANY boxes with the exact structure (this is how the checker's structure test on the
   implementation's cells implies its separation test), and separated cells do not overlap. *)
Theorem C22_structure_implies_separation :
  forall hgap vgap x0 y R,
    0 <= hgap -> 0 <= vgap -> nonneg_boxes_b R = true ->
    rows_ok_b 0 hgap vgap x0 y R = true ->
    sep_pairs_b 0 hgap vgap (concat R) = true.
Proof. exact thm_structure_sep. Qed.

Theorem C22_separated_cells_do_not_overlap :
  forall hgap vgap a b, 0 <= hgap -> 0 <= vgap -> sep hgap vgap a b -> ~ overlap a b.
Proof. exact sep_no_overlap. Qed.

(* --- containment --- *)

(* All cells lie inside the box (0,0,width,height) the grid reports as its content. *)
Theorem C22_cells_inside_content_box :
  forall (evenly rowdir : bool) (hgap vgap : Q) G,
    0 <= hgap -> 0 <= vgap -> nonempty_rows_b G = true ->
    (evenly = false -> nonneg_sizes_b G = true) ->
    let R := norm rowdir (layout_groups evenly rowdir hgap vgap G) in
    forallb (inside_b 0 (mkbox 0 0 (content_w R) (content_h R))) (concat R) = true.
Proof. exact thm_inside. Qed.

(* non-vacuity *)
Example C22_capacity_hyps_satisfiable : both_given 2 3 = true /\ grid_dims 2 3 true 7 = mkdims 3 3 true.
Proof. split; reflexivity. Qed.
Example C22_single_hyps_satisfiable : both_given 2 0 = false /\ grid_dims 2 0 false 5 = mkdims 2 0 true.
Proof. split; reflexivity. Qed.
Example C22_layout_hyps_satisfiable :
  let G := [[(10, 20); (30, 5)]; [(7, 7)]] in
  0 <= 40 /\ nonempty_rows_b G = true /\ nonneg_sizes_b G = true /\ (1 <= 2)%nat /\
  chunk 2 [(10, 20); (30, 5); (7, 7)] = G.
Proof. repeat split; try reflexivity. discriminate. apply le_S, le_n. Qed.
Example C22_structure_hyps_satisfiable :
  let R := dynamic_nf 40 40 [[(10, 20); (30, 5)]; [(7, 7)]] in
  nonneg_boxes_b R = true /\ rows_ok_b 0 40 40 0 0 R = true.
Proof. split; vm_compute; reflexivity. Qed.
Example C22_gen_layout_hyps_satisfiable :
  Forall (fun c => (c < 8)%nat) [0; 2; 6]%nat /\
  gen_layout [0; 1; 2; 3; 4; 5; 6; 7]%nat [0; 2; 6]%nat = [[0]; [1; 2]; [3; 4; 5; 6]; [7]]%nat.
Proof. split; [repeat constructor | reflexivity]. Qed.
Example C22_sep_hyps_satisfiable : sep 40 40 (mkbox 0 0 10 20) (mkbox 50 0 30 20).
Proof. left. vm_compute. discriminate. Qed.

Print Assumptions C22_capacity_covers.
Print Assumptions C22_single_dimension.
Print Assumptions C22_chunks_are_declaration_order.
Print Assumptions C22_gen_layout_is_ordered_partition.
Print Assumptions C22_layout_keeps_order.
Print Assumptions C22_cells_never_shrink.
Print Assumptions C22_exact_gaps_and_row_alignment.
Print Assumptions C22_evenly_columns_aligned.
Print Assumptions C22_dynamic_groups_same_extent.
Print Assumptions C22_ordered_and_separated.
Print Assumptions C22_structure_implies_separation.
Print Assumptions C22_separated_cells_do_not_overlap.
Print Assumptions C22_cells_inside_content_box.
